#!/bin/sh
# tools/r8_keep.sh <ID>: confirm the round-8 seed of one agent in its scratch worktree and keep it (checks are run
# afterwards with tools/mut_sandbox.sh quick 'R8-*', in scratch copies, so that /repo and /verif/target stay untouched)
ID="$1"
export SEED_ROOT=/tmp/seed8
O=$SEED_ROOT/$ID-out
[ -f $O/a.diff ] || { echo "$ID: no diff"; exit 1; }
conf=$(/verif/tools/confirm_seed.sh $ID a 2>&1 | grep -v '^WARNING')
echo "$conf" | cut -c1-300
echo "$conf" | grep -q 'clean-demo: \[test result: ok' || { echo "$ID: NOT CONFIRMED (clean demo)"; exit 1; }
echo "$conf" | grep -q 'mutated-demo: \[test result: FAILED' || { echo "$ID: NOT CONFIRMED (mutated demo passes)"; exit 1; }
echo "$conf" | grep -q 'passed 150 failed 0' || { echo "$ID: NOT CONFIRMED (suite)"; exit 1; }
title=$(grep -m1 -i "mutation A" $O/notes.md | sed 's/^[#* ]*//; s/\*//g' | cut -c1-200)
python3 /verif/tools/keep_seed.py $ID a R8-$ID-a --breaks "$title" --needs "a specific short sequence of calls on one thread (see notes.md); every call made first on a fresh thread is correct" --caught "C13 quick:pending" >/dev/null
cp $O/notes.md /verif/seeded/R8-$ID-a/notes.md
echo "$ID kept"
