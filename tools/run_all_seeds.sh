#!/bin/sh
# tools/run_all_seeds.sh [tier]   mutation regression: applies every kept seeded change to /repo in turn,
# runs the checks listed in its meta.json "caught_by" (first token = property id) and reports whether at
# least one of them still fails with a VIOLATION. /repo is restored after every seed.
TIER="${1:-quick}"
cd /verif || exit 2
ok=0; bad=0
for d in seeded/*/; do
  name=$(basename "$d")
  ids=$(python3 -c "
import json,sys
m=json.load(open('$d/meta.json'))
ids=[]
for c in m['caught_by']:
    i=c.split()[0]
    if '$TIER'=='quick' and 'thorough' in c.split(':')[0]: continue
    if i not in ids: ids.append(i)
print(' '.join(ids))")
  if [ -z "$ids" ]; then echo "$name: (no check claims to catch it at tier $TIER)"; continue; fi
  out=$(./tools/try_seed.sh "/verif/$d/patch.diff" "$TIER" $ids 2>&1 | grep -v WARNING)
  if echo "$out" | grep -q "exit=1"; then ok=$((ok+1)); echo "$name: CAUGHT ($(echo "$out" | grep 'exit=1' | cut -d' ' -f1 | tr '\n' ' '))";
  else bad=$((bad+1)); echo "$name: NOT CAUGHT  <<<<<<  $out"; fi
done
echo "caught $ok, not caught $bad"
