#!/bin/sh
# tools/fa_sandbox.sh <dir-with-*.diff> [tier]   false-alarm regression in scratch copies:
# every patch in the directory is a change under which ALL properties still hold; every check must stay
# silent (exit 0). Sharding as in mut_sandbox.sh (MUT_SHARD=i/n). Not a registered command.
DIR="$1"; TIER="${2:-quick}"
SH_I="${MUT_SHARD%%/*}"; SH_N="${MUT_SHARD##*/}"
[ -z "$MUT_SHARD" ] && { SH_I=0; SH_N=1; }
M=/root/scratch/fa${FA_TAG}$SH_I
git -C /repo worktree remove --force $M/repo 2>/dev/null
mkdir -p $M && rm -rf $M/verif
git -C /repo worktree add --detach $M/repo HEAD >/dev/null 2>&1 || exit 2
rsync -a --exclude target --exclude .git /verif/ $M/verif/
sed -i "s#path = \"/repo\"#path = \"$M/repo\"#" $M/verif/harness/Cargo.toml $M/verif/miri-harness/Cargo.toml
cd $M/verif || exit 2
idx=0
for p in "$DIR"/*.diff; do
  idx=$((idx+1))
  [ $(( (idx-1) % SH_N )) -ne "$SH_I" ] && continue
  name=$(basename "$p" .diff)
  ( cd $M/repo && git apply "$p" ) || { echo "$name: PATCH DOES NOT APPLY"; continue; }
  alarms=""
  for i in ${FA_CHECKS:-01 02 03 04 05 06 07 08 09 10 11 12 13 14 15 16 17 18 19 20}; do
    out=$(./check C$i "$TIER" 2>&1); code=$?
    if [ $code -ne 0 ]; then alarms="$alarms C$i=$code[$(printf '%s\n' "$out" | grep -m1 'class=' | sed 's/^ *//' | cut -c1-160)]"; fi
  done
  ( cd $M/repo && git checkout -q -- . )
  if [ -z "$alarms" ]; then echo "$name: silent"; else echo "$name: ALARM $alarms"; fi
done
git -C /repo worktree remove --force $M/repo
rm -rf $M
echo SHARD-DONE
