#!/usr/bin/env python3
import json, glob, sys, os
import jsonschema
HERE = os.path.dirname(os.path.dirname(os.path.abspath(__file__)))
jsonschema.validate(json.load(open(HERE + '/MANIFEST.json')), json.load(open('/root/.vp/MANIFEST.schema.json')))
print('MANIFEST ok')
s = json.load(open('/root/.vp/EVIDENCE.schema.json'))
bad = 0
for f in sorted(glob.glob(HERE + '/evidence/*.json')):
    try:
        jsonschema.validate(json.load(open(f)), s); print('ok', os.path.basename(f))
    except Exception as e:
        bad += 1; print('INVALID', f, str(e)[:300])
sys.exit(1 if bad else 0)
