#!/bin/sh
# tools/mut_sandbox.sh [tier] [name-glob]
# Mutation regression in a scratch copy, so that /repo and /verif stay free for editing:
#   /root/scratch/mut/repo  = detached git worktree of /repo HEAD
#   /root/scratch/mut/verif = copy of /verif's working tree (without target/) whose crates depend on that worktree
# For every seeded change (seeded/<name>/patch.diff matching the glob) it applies the patch to the scratch
# worktree, runs the checks named in meta.json "caught_by" (plus the seed's own property), and reports.
# Not a registered command: results are development information, never evidence.
TIER="${1:-quick}"; GLOB="${2:-*}"
# optional sharding: MUT_SHARD=i/n runs every n-th seed starting at i (0-based) in its own scratch copy
SH_I="${MUT_SHARD%%/*}"; SH_N="${MUT_SHARD##*/}"
[ -z "$MUT_SHARD" ] && { SH_I=0; SH_N=1; }
M=/root/scratch/mut$SH_I
git -C /repo worktree remove --force $M/repo 2>/dev/null
mkdir -p $M && rm -rf $M/verif
git -C /repo worktree add --detach $M/repo HEAD >/dev/null 2>&1 || exit 2
rsync -a --exclude target --exclude .git /verif/ $M/verif/
sed -i "s#path = \"/repo\"#path = \"$M/repo\"#" $M/verif/harness/Cargo.toml $M/verif/miri-harness/Cargo.toml
cd $M/verif || exit 2
ok=0; bad=0; idx=0
for d in seeded/$GLOB/; do
  name=$(basename "$d")
  idx=$((idx+1))
  [ $(( (idx-1) % SH_N )) -ne "$SH_I" ] && continue
  ids=$(python3 -c "
import json
m=json.load(open('$d/meta.json'))
ids=[m['property']]
for c in m['caught_by']:
    i=c.split()[0]
    if '$TIER'=='quick' and 'thorough' in c.split(':')[0]: continue
    if i not in ids: ids.append(i)
print(' '.join(ids))")
  ( cd $M/repo && git apply "$M/verif/$d/patch.diff" ) || { echo "$name: PATCH DOES NOT APPLY"; continue; }
  res=""
  hit=0
  for id in $ids; do
    out=$(./check "$id" "$TIER" 2>&1); code=$?
    res="$res $id=$code"
    [ $code -eq 1 ] && hit=1
  done
  ( cd $M/repo && git checkout -q -- . )
  if [ $hit -eq 1 ]; then ok=$((ok+1)); echo "$name: CAUGHT ($res )"; else bad=$((bad+1)); echo "$name: NOT CAUGHT  <<<<<< ($res )"; fi
done
echo "caught $ok, not caught $bad"
git -C /repo worktree remove --force $M/repo
rm -rf $M
