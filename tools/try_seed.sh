#!/bin/sh
# tools/try_seed.sh <patch.diff> <tier> <ID> [<ID> ...]
# Applies a seeded change to /repo, runs the given checks, and ALWAYS restores /repo afterwards.
# Prints one line per check: "<ID> exit=<code> <first VIOLATION class>"
PATCH="$1"; TIER="$2"; shift 2
cd /repo || exit 2
if [ -n "$(git status --porcelain -- src Cargo.toml)" ]; then echo "REFUSING: /repo has local modifications"; exit 2; fi
if ! git apply --check "$PATCH" 2>/dev/null; then echo "PATCH DOES NOT APPLY: $PATCH"; exit 2; fi
git apply "$PATCH"
trap 'cd /repo && git checkout -- . >/dev/null 2>&1' EXIT INT TERM
cd /verif
for id in "$@"; do
  out=$(./check "$id" "$TIER" 2>&1); code=$?
  cls=$(printf '%s\n' "$out" | grep -m1 'class=' | sed 's/^ *//' | cut -c1-220)
  echo "$id exit=$code $cls"
done
