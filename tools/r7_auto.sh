#!/bin/sh
# tools/r6_auto.sh <ID> [extra checks]: confirm, try (own check + extras), and keep the round-7 seeds of one agent
ID="$1"; shift
export SEED_ROOT=/tmp/seed7
O=$SEED_ROOT/$ID-out
for v in a b; do
  [ -f $O/$v.diff ] || { echo "$ID/$v: no diff"; continue; }
  conf=$(/verif/tools/confirm_seed.sh $ID $v 2>&1 | grep -v '^WARNING')
  echo "$conf"
  echo "$conf" | grep -q 'clean-demo: \[test result: ok' || { echo "$ID/$v: NOT CONFIRMED (clean demo)"; continue; }
  echo "$conf" | grep -q 'mutated-demo: \[test result: FAILED' || { echo "$ID/$v: NOT CONFIRMED (mutated demo passes)"; continue; }
  echo "$conf" | grep -q 'passed 150 failed 0' || { echo "$ID/$v: NOT CONFIRMED (suite)"; continue; }
  res=$(/verif/tools/try_seed.sh $O/$v.diff quick $ID "$@" 2>&1 | grep -v '^WARNING' | cut -c1-200)
  echo "$res"
  caught=$(echo "$res" | awk '/exit=1/{split($0,a," "); cls=$3; sub("class=","",cls); printf "%s quick:%s;", a[1], cls}')
  missed=$(echo "$res" | awk '/exit=0/{printf "%s quick;", $1}')
  V=$(echo $v | tr a-c A-C)
  title=$(grep -m1 -i "mutation $V" $O/notes.md | sed 's/^[#* ]*//; s/\*//g' | cut -c1-200)
  [ -z "$title" ] && title="mutation $V of the round-7 agent for $ID (see notes.md)"
  python3 /verif/tools/keep_seed.py $ID $v R7-$ID-$v --breaks "$title" --needs "see notes.md (plausible maintainer commit: optimisation, refactor or guard; needs a specific input, sequence or schedule)" --caught "$caught" --missed "$missed" >/dev/null
  cp $O/notes.md /verif/seeded/R7-$ID-$v/notes.md
done
