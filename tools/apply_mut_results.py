#!/usr/bin/env python3
"""tools/apply_mut_results.py <tier> <result files...>: rewrites caught_by / not_caught_by of seeded/*/meta.json from
the lines "<name>: CAUGHT ( C01=1 C13=0 )" printed by tools/mut_sandbox.sh (exit 1 = VIOLATION reported)."""
import json, re, sys, os
tier = sys.argv[1]
for f in sys.argv[2:]:
    for line in open(f):
        m = re.match(r'^(\S+): (CAUGHT|NOT CAUGHT).*\((.*)\)', line)
        if not m:
            continue
        name, res = m.group(1), m.group(3)
        p = f'/verif/seeded/{name}/meta.json'
        if not os.path.exists(p):
            continue
        meta = json.load(open(p))
        pairs = dict(x.split('=') for x in res.split())
        old = {c.split()[0]: c for c in meta.get('caught_by', [])}
        caught = []
        missed = []
        for cid, code in pairs.items():
            if code == '1':
                prev = old.get(cid, '')
                cls = prev.split(':', 1)[1] if ':' in prev else ''
                caught.append(f"{cid} {tier}" + (f":{cls}" if cls else ''))
            elif code == '0':
                missed.append(f"{cid} {tier}")
        # keep thorough-only entries recorded earlier
        for cid, c in old.items():
            if 'thorough' in c.split(':')[0] and tier == 'quick' and not any(x.startswith(cid + ' ') for x in caught):
                caught.append(c)
        meta['caught_by'] = caught
        meta['not_caught_by'] = missed
        meta['checks_run'] = "tools/mut_sandbox.sh (scratch copy of /repo and /verif: git apply, ./check, git checkout)"
        json.dump(meta, open(p, 'w'), indent=1)
print("done")
