#!/bin/sh
# tools/r4_try.sh <ID> [extra check ids...]: confirm both seeds of a round-6 agent and try the checks on them
ID="$1"; shift
export SEED_ROOT=/tmp/seed6
for v in a b c; do
  [ -f $SEED_ROOT/$ID-out/$v.diff ] || { echo "$ID/$v: no diff"; continue; }
  /verif/tools/confirm_seed.sh $ID $v 2>&1 | grep -v '^WARNING'
  /verif/tools/try_seed.sh $SEED_ROOT/$ID-out/$v.diff quick $ID "$@" 2>&1 | grep -v '^WARNING' | cut -c1-260
done
