#!/usr/bin/env python3
"""Writes /verif/MUTATIONS.md from seeded/*/meta.json."""
import json, glob, os
HERE = os.path.dirname(os.path.dirname(os.path.abspath(__file__)))
rows = []
for d in sorted(glob.glob(HERE + "/seeded/*/")):
    m = json.load(open(d + "meta.json")); rows.append((os.path.basename(d.rstrip("/")), m))
out = ["# Seeded changes and which checks catch them", "",
 "Every change below was written by an independent sub-agent that saw only the text of one property and a scratch",
 "worktree of /repo (nothing from /verif). Each was re-confirmed in that scratch worktree (`tools/confirm_seed.sh`):",
 "the unedited 150-test suite passes with the change, the agent's demonstration test fails with it and passes without.",
 "Checks were run with `tools/try_seed.sh` / `tools/mut_sandbox.sh` (git apply, ./check <ID> quick, git checkout -- .): the own check of the seed's property and the", "checks that were seen to catch it; other checks were not run on every seed, so a missing id does not mean a miss.", "",
 "| seed | property | what it needs to manifest | caught by (quick tier) | not caught by | strengthening it triggered |",
 "|------|----------|---------------------------|------------------------|---------------|----------------------------|"]
for name, m in rows:
    out.append("| `%s` | %s | %s | %s | %s | %s |" % (name, m["property"], m["needs_to_manifest"].replace("|", "/"),
        "<br>".join(m["caught_by"]) or "-", "<br>".join(m["not_caught_by"]) or "-", m.get("note", "").replace("|", "/") or "-"))
out += ["", "Total: %d seeded changes; %d caught by at least one registered check at the quick tier." % (len(rows), sum(1 for _, m in rows if m["caught_by"]))]
open(HERE + "/MUTATIONS.md", "w").write("\n".join(out) + "\n")
print("wrote MUTATIONS.md with", len(rows), "rows")
