#!/bin/sh
# tools/confirm_seed.sh <ID> <a|b>   re-confirms a sub-agent's seeded change in ITS scratch worktree:
#   clean tree: demo passes; with the change: unedited suite passes (150) and demo fails.
ID="$1"; V="$2"; R="${SEED_ROOT:-/tmp/seed2}"; W=$R/$ID; O=$R/$ID-out
export CARGO_TARGET_DIR=$R/$ID-target CARGO_NET_OFFLINE=true
cd "$W" || exit 2
git checkout -q -- src Cargo.toml 2>/dev/null
mkdir -p "$O/aside"; for f in tests/seeded_demo_*.rs; do [ -f "$f" ] && mv "$f" "$O/aside/"; done
cp "$O/seeded_demo_$V.rs" tests/seeded_demo_$V.rs
clean=$(cargo test --offline --test seeded_demo_$V 2>&1 | grep -E '^test result' | head -1)
git apply "$O/$V.diff" || { echo "$ID/$V: PATCH DOES NOT APPLY"; exit 2; }
mut=$(cargo test --offline --test seeded_demo_$V 2>&1 | grep -E '^test result' | head -1)
mv tests/seeded_demo_$V.rs "$O/aside/"
suite=$(cargo test --workspace --no-fail-fast --offline 2>&1 | grep -E '^test result' | awk '{p+=$4; f+=$6} END{print "passed",p,"failed",f}')
git checkout -q -- src Cargo.toml
echo "$ID/$V clean-demo: [$clean] mutated-demo: [$mut] suite-with-change: [$suite]"
