#!/usr/bin/env python3
"""keep_seed.py <ID> <a|b> <name> --breaks "..." --needs "..." --caught "C09:class,..." [--missed "C..:why"] [--note "..."]
Copies a confirmed seeded change from /tmp/seed/<ID>-out into /verif/seeded/<name>/."""
import argparse, json, os, shutil, subprocess
ap = argparse.ArgumentParser()
ap.add_argument("id"); ap.add_argument("v"); ap.add_argument("name")
ap.add_argument("--breaks", required=True); ap.add_argument("--needs", required=True)
ap.add_argument("--caught", default=""); ap.add_argument("--missed", default=""); ap.add_argument("--note", default="")
ap.add_argument("--confirm", default="")
a = ap.parse_args()
src = os.environ.get("SEED_ROOT", "/tmp/seed2") + f"/{a.id}-out"; dst = f"/verif/seeded/{a.name}"
os.makedirs(dst, exist_ok=True)
shutil.copy(f"{src}/{a.v}.diff", f"{dst}/patch.diff")
shutil.copy(f"{src}/seeded_demo_{a.v}.rs", f"{dst}/demo.rs")
meta = {
  "property": a.id,
  "origin": "independent sub-agent given only the property text and a scratch worktree of /repo HEAD",
  "breaks": a.breaks,
  "needs_to_manifest": a.needs,
  "confirmed_in_scratch_worktree": a.confirm or "tools/confirm_seed.sh: demo passes on the clean tree, fails with the change; unedited suite with the change: 150 passed, 0 failed",
  "demonstration": "demo.rs = tests/seeded_demo.rs for `cargo test --offline --test seeded_demo`",
  "checks_run": "tools/try_seed.sh patch.diff quick <ids> (git apply to /repo, ./check, git checkout -- .)",
  "caught_by": [c for c in a.caught.split(";") if c],
  "not_caught_by": [c for c in a.missed.split(";") if c],
  "note": a.note,
}
json.dump(meta, open(f"{dst}/meta.json", "w"), indent=1)
print("kept", dst)
