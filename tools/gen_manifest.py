#!/usr/bin/env python3
"""Regenerates /verif/MANIFEST.json from the table below (kept in one place so it stays valid)."""
import json, os, subprocess
HERE = os.path.dirname(os.path.dirname(os.path.abspath(__file__)))

def hooks_commits():
    try:
        out = subprocess.check_output(["git", "-C", "/repo", "log", "--format=%H %s"], text=True)
        return [l.split()[0] for l in out.splitlines() if l.split(" ", 1)[1].startswith("verif hooks")]
    except Exception:
        return []

CHECKS = {
 "C13": ("memo+sched", "model_checking", "explicit-state exploration of the projection memo tables + stateless preemption-bounded exploration of real OS threads under a controlled (baton) scheduler (+ seed-enumerated Miri schedules and a free-running pass as auxiliaries)",
         "Histories: every ordered pair (with echo) and every same-sector triple of 480 projection ops on fresh instances, BFS to closure over the memo-table states of small universes, and all ordered pairs/triples of ~40 public calls in fresh OS threads; every result must be bitwise equal to its cold value and every filled slot canonical. Schedules: depth-first enumeration of all interleavings of 2-3 real OS threads (real thread_local!/OnceLock/LazyLock) at the hook points up to a preemption bound, with warm globals in-process and with cold globals in a fresh process per execution; monitors: bitwise results, instance exclusivity, initialisers at most once, deadlock; violating schedules are replayed before being reported. Two auxiliary passes for shared state outside the hook points, reported separately and never used to claim that the property holds: first-touch calls of 2-3 threads under Miri's deterministic scheduler (one reproducible schedule per seed, preemption possible at every basic block), and a free-running pass in fresh processes. Further complete enumerations of finite history families: all ordered pairs of calls of 39+ families on one thread (lookups of whole neighbourhoods spread over faces that miss their first estimate, resolution chains, hierarchy calls incl. refused ones and collision families, Hilbert walks); long histories (a call repeated after exactly 255..65537 identical calls; 70 000 distinct calls with repeats at the table sizes 2^4..2^16); and one fresh process per prelude (43 named first histories: world expansions, 1000 easy lookups, a caller-supplied triangle, 65 600 fine cells, 300 threads, every first-touch op) followed by a fixed battery whose results must be identical bit for bit in all processes.",
         "Switch points only at the hook points (memo reads/stores, entry/exit of forward/inverse, first two accesses per lazy table); memory-ordering effects below that are not explored. loom/shuttle are not used because their coroutine threads would share std thread_local! state.", "5 C13"),
 "C14": ("totality", "exploration", "exhaustive enumeration of structured id / resolution / coordinate classes x every public function in two build profiles, each probe in a resource-limited child process",
         "Every combination of a catalogue of ~15 k structured 64-bit patterns (every top-6 value x marker position x payload class), 87 resolution classes and 90 coordinate classes with every public function is executed in the release and in the overflow-checked build inside child processes (1 GiB address space, 10 s watchdog): the call must return, out-of-range resolutions must be rejected, results must be canonical ids of the requested resolution, non-cell bit patterns must be rejected or behave exactly as the canonical cell they alias. Also: runs of 255..2048 consecutive cells (aligned and unaligned) through compact/uncompact, numeric neighbours of the first/last cell of every resolution in lists, 700/4 000 short-lived threads, and calls made from a thread-local destructor during thread shutdown.",
         "Catalogue is structured, not all 2^64 values; calls with honest fan-out above 4^8 are skipped.", "5 C14"),
 "C06": ("golden", "exploration", "exhaustive agreement with a frozen reference table over an enumerated input set",
         "A table generated once from the reference release (all cells r<=5, digit-pattern families to r=29 covering every face x quintant x resolution, sphere lattice x resolutions 0..29) is compared entry by entry with the current tree: same id wherever the reference answer contained the point with margin, same centre and corner points within 1e-9 deg wherever the reference output was self-consistent. A second-generation table from the same reference release adds word-aligned ids (low 8..20 curve digits all 0 or all 3), the lattice written with longitudes +-360/+-720 and the centres the reference reports looked up again; a slice of the table is re-evaluated on single fresh threads in descending and jumping resolution order.",
         "Trusts the committed table (golden/PROVENANCE.json with sha256); pins the Rust reference only, not the TS/Python ports.", "4 C06"),
 "C03": ("lattice", "exploration", "exhaustive enumeration of all cell pairs of a face (planar clipping) + exhaustive containing-cell search for lattice points",
         "For every resolution up to the bound: all same-face cell pairs clipped in the plane, interior points of every cell searched in all cells of the three nearest faces, every lattice point searched exhaustively (>=1 cell within the band, <=1 strictly), signed areas telescoping to 4 pi; at fine resolutions two-ring neighbourhoods found by lookup. At fine resolutions the point must also be covered (no gap), incl. the frozen reference places of word-aligned cells. Order mixing across face edges: for every cell next to a dodecahedron edge (r=2..3/5) and every cell of the neighbouring face beyond it, all ordered pairs of strict-interior points of both cells are put to the library's containment predicate for each of the two cells on one fresh thread (second answer must be inside exactly for the cell's own points).",
         "Cross-face containment goes through the real forward projection (C15). No-gap verdict is for lattice points; the measure identity bounds the rest.", "4 C03"),
 "C17": ("hilbert-automaton", "model_checking", "exhaustive enumeration of all curve positions to a depth bound x 6 orientations + explicit-state exploration of the digit-walk automaton bound by conformance",
         "All s < 4^n (n<=9/12) for all six orientations on real outputs: pairwise distinct pentagons, centres in the quintant triangle, locating the centre returns s. The digit walk is modelled as a 16-state Mealy machine, compared bit for bit with the real s_to_anchor_internal on every position up to depth 8/10, and its pair automaton is explored for a non-injective witness, which covers every depth. A jumping-order pass visits all depths 1..29 on one thread in a non-monotone order with an unrelated walk between computing and locating each centre. Position-major pass: every position (all s<4^n, n<=6/8; structured positions to n=29) in all six orientations back to back, in every cyclic order and its reverse, on one fresh thread per depth.",
         "The all-depth claim rests on the model; it is made only when conformance passes (otherwise the run reports model_bound=false and decides on real outputs only).", "3.4, 5 C17"),
 "C01": ("lattice", "exploration", "exhaustive enumeration of a fixed sphere lattice x all 30 resolutions against a containment oracle",
         "Every point of a lattice built from the code's own case splits (12 faces, 30 edges, 20 vertices, sector seams, polar caps, antimeridian, every cell's vertices and edge midpoints with offsets down to 1e-9) is looked up at every resolution 0..29; the answer must be a canonical id of exactly that resolution whose planar polygon contains the point within a 4e-12 band, and for r<=12 whose reported boundary ring contains it (independent spherical test). Verdict is for the lattice, not the continuum. Plus call ladders: a lookup repeated after exactly 255..65537 identical lookups on one thread.",
         "Trusts the reference conversions (quadrature authalic latitude) and RefPlane distance; the planar oracle shares the forward projection with the subject, the spherical oracle only the public boundary call.", "4 C01"),
 "C02": ("lattice", "exploration", "exhaustive enumeration of all cells up to a resolution bound x a 51-point interior lattice, exact id equality",
         "Centres of all cells r<=6/9 and a 51-point strict-interior lattice of all cells r<=4/7, of digit-pattern families to r=29 and of pole/antimeridian cells must look up to the same id. Plus all ordered pairs (p1 then p2 on one thread) of the interior points of 30+ neighbourhoods spread over whole faces that miss their first estimate.",
         "Points are classified strict-interior through the real forward projection of what is passed to the API; finer resolutions on families only.", "4 C02"),
 "C04": ("lattice", "exploration", "exhaustive enumeration of all cells up to a resolution bound, independent spherical polygon area",
         "Every cell r<=4/7 plus families to r=29 and pole/antimeridian cells: area measured from the reported boundary (32-64 segments per edge) with an independent spherical-polygon formula equals sphere/N within 1e-4; areas of a resolution sum to 4 pi; metadata table equals the quotient. Plus fine cells (r>=24) cut by the break lines of the coordinate functions (octant meridians and parallels of the rotated frame, rays at multiples of 45 deg around face centres) and word-aligned cells. Area after another request: for every cell r<=4/6 the finely subdivided ring is requested again right after each of six other requests for the same cell on the same thread (coarse / closed / default ring, centre) and must enclose sphere/N within 1e-4.",
         "Trusts RefSphere area and the reference authalic conversion.", "4 C04"),
 "C11": ("lattice", "exploration", "exhaustive enumeration of all cells up to a resolution bound x 12 option combinations",
         "Every cell r<=3/6 plus pole/antimeridian cells at every finer resolution and families x closed/open x n in {1,2,3,7,64,default}: length, closure, finiteness, latitude range, orientation, centre inside, longitude window, corner identity. Plus the ring of the cell a lookup returns, drawn right after the lookup on the same fresh thread (corner, edge-midpoint and centre points of coarse cells at three resolutions each). Option histories: all 13 824 sequences of three requests over 2 cells x closed/open x 6 subdivisions, for 6/11 cell pairs, on one fresh thread each: every ring has the length and the physical points (1e-9 deg) of the same request made first on a fresh thread.",
         "Pole exemption decided on the n=64 ring with a 1e-3 cell-size margin.", "4 C11"),
 "C12": ("lattice", "exploration", "exhaustive enumeration of all parents up to a resolution bound with all children, planar clipping",
         "Every parent r<=4/7 and family parents to r=28 with all children: planar convex clipping shows shared interior, union cover > 1/2, centre distance <= 0.8 sqrt(parent area). Column-major pass: children's centres requested so that consecutive requests differ in the face or the segment only (corresponding child of all 60 face x segment combinations back to back, both nestings), parents r=2..5/8; same reach bound.",
         "Trusts Sutherland-Hodgman clipping of convex polygons in the shared face plane.", "4 C12"),
 "C15": ("lattice", "exploration", "exhaustive enumeration of sphere and plane lattices against an independent dodecahedron frame",
         "Sphere lattice relative to nearest and second-nearest face of an independent regular dodecahedron, and a polar plane lattice on all 12 faces: inside/outside the face pentagon and round trips within 1e-12 / 1e-11. Wedge histories: for every face and every 36-degree wedge, all ordered pairs (with echo) of 12 ops (forward/inverse of two points inside the pentagon, two beyond the edge in the same wedge, one inside and one beyond in the next wedge) on one projection object; every call must agree within 1e-11 with the cold round trip of its point.",
         "Lattice verdict only; the frame and pentagon are first-principles constructions.", "4 C15"),
 "C16": ("lattice", "exploration", "exhaustive enumeration of a plane lattice x subdivided probe triangles",
         "Every lattice point of all 12 faces and of the reflected margin, on both sides of every seam and edge: spherical area of the unprojected probe / planar area equals 4 pi / (12 A_face) within 1e-4. Ratios are signed (orientation must be preserved), the wedges beyond the reflected triangle next to the face vertices are probed, the public projection is used with a caller-supplied triangle before and after, and second-difference sweeps walk rays and arcs inside single triangles in equal steps (1e-7 / 2e-8 / 6e-10) requiring consecutive unprojected step lengths to agree within 1e-12.",
         "Probe discretisation error calibrated below 3e-6.", "4 C16"),
 "C18": ("lattice", "exploration", "exhaustive enumeration of face pairs, relabellings and a sphere lattice against an independent frame",
         "12 base cells against a first-principles dodecahedron in the documented orientation, all 66 pairs, true angular argmin on the lattice, all 60 quintant<->segment relabellings both ways. The relabellings are repeated through owned copies of every ordered pair of faces (dropped and re-created).",
         "Documented face numbering frozen in the reference.", "4 C18"),
 "C19": ("lattice", "exploration", "exhaustive enumeration of a dyadic latitude grid and a lon/lat grid",
         "All 2^18+1 / 2^21+1 grid latitudes: round trip, closed-form WGS84 agreement, oddness, strict monotonicity between adjacent points; lon/lat <-> sphere round trip on a grid with lon in [-540, 540]. Latitude ladders: from_lon_lat at one rung followed by to_lon_lat at every other rung (steps 1e-12..1e-4 rad), all ordered pairs. Same-argument sequences: all 64 triples over {forward(x), inverse(x), forward(-x), inverse(-x)} for every x of a latitude grid (4 001/80 001 values, |x|<=88 deg), each result judged by the closed form.",
         "Closed form (Snyder) and Gauss-Legendre quadrature references.", "4 C19"),
 # id: (engine, level category, technique, level text, level note, design ref)
 "C05": ("refmodel", "model_checking", "exhaustive reference-model conformance over all tuples (bounded resolution) and all short strings",
         "Every (face, quintant, position, resolution) tuple up to a resolution bound is enumerated and the real encoder/decoder must agree bit for bit with an independent statement of the documented layout; injectivity by sorting all produced ids; hex semantics on all strings of length <= 3 over a 24-symbol alphabet and structured 64-bit values. Deeper resolutions are covered on structured positions only. Every single-bit neighbour of ~2 000 valid ids is decoded, and every hierarchy call is made on it with every natural target after its valid neighbourhood was used; digit strings up to 1024 digits with long zero windows.",
         "Trusts the reference codec (40 lines of integer arithmetic written from the property text, with the per-face first-quintant table frozen).", "5 C05"),
 "C07": ("graph", "model_checking", "explicit-state BFS of the hierarchy graph through the real child/parent functions",
         "Breadth-first search from the world cell where every edge is a real cell_to_children / cell_to_parent call; tree axioms are checked in every state and each level is compared with an independent enumeration. Exhaustive for all cells up to the resolution bound, digit-pattern families down to r=29. Beyond the bounds: exact lists for fan-outs of 4^9..4^12, every valid call right after every refused call, all ordered pairs of collision families of calls (cells differing in one component), expansion-key churn, and call ladders (exact gaps 255..65537).",
         "Trusts RefCodec's enumeration of each resolution; fan-outs above 4^8 are checked on a fixed list of calls only.", "5 C07"),
 "C08": ("setmachine", "model_checking", "stateright explicit-state search of a cell-set machine + all subsets of small universes + all permutations",
         "All cell multisets reachable by Split/Drop/AddAncestor/Dup (real hierarchy calls) up to a depth bound, all subsets of universes built to make ids collide with the numeric order, and all permutations of small sets; on each, expanding the compacted set must equal the reference cover, without duplicates and independent of order/multiplicity. Beyond the machine bounds, structured families enumerated completely: every run [a,b) of 4096- and 65 536-leaf universes with a,b around the powers of 2 and 4 in leaf, mixed-resolution and overlapping forms and five reorderings; sets aliasing a sibling group modulo m*4^k; sets whose cardinality coincides with a whole level; call ladders.",
         "Trusts RefTree's cover(); the state machine is bounded in resolution (<=3), list length and depth; longer inputs come from the structured families only.", "5 C08-C10"),
 "C09": ("setmachine", "model_checking", "stateright explicit-state search of a cell-set machine x every target resolution",
         "Every reachable cell list x every target resolution: Err exactly when an input is finer, otherwise per-input blocks equal the reference descendants in input order. Beyond the machine bounds: length ladder 2..65 537 x 60+ position patterns over three resolution pools, all lists of length <=4 over a six-cell alphabet with repeats, windows of consecutive ids, outputs above 4^8 per input, collision/expansion call pairs and call ladders.",
         "Trusts RefTree descendants(); total fan-out bounded to 4^8.", "5 C08-C10"),
 "C10": ("setmachine", "model_checking", "stateright explicit-state search over non-overlapping cell sets + all subsets of interleaving universes",
         "Every reachable non-overlapping set and every non-overlapping subset of the universes: compact equals the reference canonical compaction, contains no complete sibling group, and is idempotent. Beyond the machine bounds: the same long runs and alias sets as C08 (non-overlapping forms) against the canonical compaction, and call ladders.",
         "Trusts RefCompact (bottom-up merging with hash sets).", "5 C08-C10"),
 "C20": ("graph", "model_checking", "exhaustive enumeration of all same-resolution id pairs and all subtrees up to a resolution bound",
         "All cells up to the resolution bound in one sorted list; ancestor order on every adjacent pair at every level (adjacent pairs imply all pairs), every subtree as a contiguous id interval without foreign cells, siblings adjacent; base cells exempt and shown to interleave. Word-aligned ids join the deep neighbour pairs; all ordered pairs of collision-family calls on one thread must return the reference ancestors/descendants.",
         "Trusts RefCodec's prefix test for subtree membership.", "5 C07/C20"),
}

def main():
    ids = sorted(CHECKS)
    props = [json.loads(l)["id"] for l in open(os.path.join(HERE, "properties.jsonl"))]
    checks = []
    for i in ids:
        eng, cat, tech, text, note, ref = CHECKS[i]
        checks.append({
            "property_id": i,
            "quick_cmd": f"./check {i} quick",
            "thorough_cmd": f"./check {i} thorough",
            "evidence_file": f"/verif/evidence/{i}.json",
            "replay_cmd_template": f"./check {i} --replay {{path}}",
            "engine": eng,
            "level_claimed": {"category": cat, "text": text, "design_ref": "DESIGN.md section " + ref},
            "level_note": note,
            "technique": tech,
        })
    na = [{"property_id": p, "reason": "check not yet registered in this revision (being built; see DESIGN.md section 0)"} for p in props if p not in CHECKS]
    m = {
        "version": 1,
        "setup_cmd": "cd /verif/harness && CARGO_NET_OFFLINE=true cargo build --release --offline && CARGO_NET_OFFLINE=true cargo build --profile checked --offline && (cd /verif/miri-harness && CARGO_TARGET_DIR=/verif/target/miri CARGO_NET_OFFLINE=true MIRIFLAGS='-Zmiri-disable-isolation -Zmiri-ignore-leaks -Zmiri-deterministic-floats' cargo +nightly miri run --offline -q -- 0 >/dev/null 2>&1 || true)",
        "hooks": {
            "guard": "cargo feature \"verif\" (#[cfg(feature = \"verif\")])",
            "enable": "the harness crate depends on a5 = { path = \"/repo\", features = [\"verif\"] }; cargo rebuilds a5 from /repo's working tree on every check",
            "baseline_off_cmd": "cd /repo && CARGO_NET_OFFLINE=true cargo test --workspace --no-fail-fast --offline",
            "source_commits": hooks_commits(),
            "add_only": True,
        },
        "engines": [
            {"name": "refmodel", "path": "harness/src/checks/c05.rs", "serves_properties": ["C05"], "kind_free_text": "exhaustive tuple enumeration against an independent reference codec"},
            {"name": "graph", "path": "harness/src/checks/graph.rs", "serves_properties": ["C07", "C20"], "kind_free_text": "explicit-state BFS over the cell hierarchy through the real functions"},
            {"name": "lattice", "path": "harness/src/checks/{lookup,cells,proj,frame}.rs", "serves_properties": ["C01","C02","C04","C11","C12","C15","C16","C18","C19"], "kind_free_text": "complete enumeration of finite lattices built from the code's case splits, with reference-geometry oracles"},
            {"name": "hilbert-automaton", "path": "harness/src/checks/hilbert.rs", "serves_properties": ["C17"], "kind_free_text": "exhaustive position enumeration + Mealy-machine model with conformance binding and pair-automaton exploration"},
            {"name": "golden", "path": "harness/src/checks/golden.rs", "serves_properties": ["C06"], "kind_free_text": "frozen reference table (golden/*.bin) compared exhaustively with the current tree"},
            {"name": "totality", "path": "harness/src/checks/total.rs", "serves_properties": ["C14"], "kind_free_text": "probe catalogue executed in supervised child processes, release + overflow-checked builds"},
            {"name": "memo+sched", "path": "harness/src/checks/purity.rs", "serves_properties": ["C13"], "kind_free_text": "memo-table state machine (explicit-state) + hand-rolled DFS scheduler over real OS threads with preemption bounding"},
            {"name": "setmachine", "path": "harness/src/checks/sets.rs", "serves_properties": ["C08", "C09", "C10"], "kind_free_text": "stateright BFS of a cell-set machine + subset and permutation enumeration"},
        ],
        "checks": checks,
        "not_applicable": na,
        "notes": "All checks: ./check <ID> <quick|thorough>; exit 0 held / 1 VIOLATION / 2 machinery failure. Known findings: /verif/known_findings.json.",
    }
    json.dump(m, open(os.path.join(HERE, "MANIFEST.json"), "w"), indent=1)
    print("wrote MANIFEST.json with", len(checks), "checks;", len(na), "not yet claimed")

if __name__ == "__main__":
    main()
