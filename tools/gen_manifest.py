#!/usr/bin/env python3
"""Regenerates /verif/MANIFEST.json from the table below (kept in one place so it stays valid)."""
import json, os, subprocess
HERE = os.path.dirname(os.path.dirname(os.path.abspath(__file__)))

def hooks_commits():
    try:
        out = subprocess.check_output(["git", "-C", "/repo", "log", "--format=%H %s"], text=True)
        return [l.split()[0] for l in out.splitlines() if l.split(" ", 1)[1].startswith("verif hooks")]
    except Exception:
        return []

CHECKS = {
 # id: (engine, level category, technique, level text, level note, design ref)
 "C05": ("refmodel", "model_checking", "exhaustive reference-model conformance over all tuples (bounded resolution) and all short strings",
         "Every (face, quintant, position, resolution) tuple up to a resolution bound is enumerated and the real encoder/decoder must agree bit for bit with an independent statement of the documented layout; injectivity by sorting all produced ids; hex semantics on all strings of length <= 3 over a 24-symbol alphabet and structured 64-bit values. Deeper resolutions are covered on structured positions only.",
         "Trusts the reference codec (40 lines of integer arithmetic written from the property text, with the per-face first-quintant table frozen).", "5 C05"),
 "C07": ("graph", "model_checking", "explicit-state BFS of the hierarchy graph through the real child/parent functions",
         "Breadth-first search from the world cell where every edge is a real cell_to_children / cell_to_parent call; tree axioms are checked in every state and each level is compared with an independent enumeration. Exhaustive for all cells up to the resolution bound, digit-pattern families down to r=29.",
         "Trusts RefCodec's enumeration of each resolution; fan-out above 4^8 per call is out of scope.", "5 C07"),
 "C08": ("setmachine", "model_checking", "stateright explicit-state search of a cell-set machine + all subsets of small universes + all permutations",
         "All cell multisets reachable by Split/Drop/AddAncestor/Dup (real hierarchy calls) up to a depth bound, all subsets of universes built to make ids collide with the numeric order, and all permutations of small sets; on each, expanding the compacted set must equal the reference cover, without duplicates and independent of order/multiplicity.",
         "Trusts RefTree's cover(); bounded resolution (<=3), list length and depth.", "5 C08-C10"),
 "C09": ("setmachine", "model_checking", "stateright explicit-state search of a cell-set machine x every target resolution",
         "Every reachable cell list x every target resolution: Err exactly when an input is finer, otherwise per-input blocks equal the reference descendants in input order.",
         "Trusts RefTree descendants(); total fan-out bounded to 4^8.", "5 C08-C10"),
 "C10": ("setmachine", "model_checking", "stateright explicit-state search over non-overlapping cell sets + all subsets of interleaving universes",
         "Every reachable non-overlapping set and every non-overlapping subset of the universes: compact equals the reference canonical compaction, contains no complete sibling group, and is idempotent.",
         "Trusts RefCompact (bottom-up merging with hash sets).", "5 C08-C10"),
 "C20": ("graph", "model_checking", "exhaustive enumeration of all same-resolution id pairs and all subtrees up to a resolution bound",
         "All cells up to the resolution bound in one sorted list; ancestor order on every adjacent pair at every level (adjacent pairs imply all pairs), every subtree as a contiguous id interval without foreign cells, siblings adjacent; base cells exempt and shown to interleave.",
         "Trusts RefCodec's prefix test for subtree membership.", "5 C07/C20"),
}

def main():
    ids = sorted(CHECKS)
    props = [json.loads(l)["id"] for l in open(os.path.join(HERE, "properties.jsonl"))]
    checks = []
    for i in ids:
        eng, cat, tech, text, note, ref = CHECKS[i]
        checks.append({
            "property_id": i,
            "quick_cmd": f"./check {i} quick",
            "thorough_cmd": f"./check {i} thorough",
            "evidence_file": f"/verif/evidence/{i}.json",
            "replay_cmd_template": f"./check {i} --replay {{path}}",
            "engine": eng,
            "level_claimed": {"category": cat, "text": text, "design_ref": "DESIGN.md section " + ref},
            "level_note": note,
            "technique": tech,
        })
    na = [{"property_id": p, "reason": "check not yet registered in this revision (being built; see DESIGN.md section 0)"} for p in props if p not in CHECKS]
    m = {
        "version": 1,
        "setup_cmd": "cd /verif/harness && CARGO_NET_OFFLINE=true cargo build --release --offline && CARGO_NET_OFFLINE=true cargo build --profile checked --offline",
        "hooks": {
            "guard": "cargo feature \"verif\" (#[cfg(feature = \"verif\")])",
            "enable": "the harness crate depends on a5 = { path = \"/repo\", features = [\"verif\"] }; cargo rebuilds a5 from /repo's working tree on every check",
            "baseline_off_cmd": "cd /repo && CARGO_NET_OFFLINE=true cargo test --workspace --no-fail-fast --offline",
            "source_commits": hooks_commits(),
            "add_only": True,
        },
        "engines": [
            {"name": "refmodel", "path": "harness/src/checks/c05.rs", "serves_properties": ["C05"], "kind_free_text": "exhaustive tuple enumeration against an independent reference codec"},
            {"name": "graph", "path": "harness/src/checks/graph.rs", "serves_properties": ["C07", "C20"], "kind_free_text": "explicit-state BFS over the cell hierarchy through the real functions"},
            {"name": "setmachine", "path": "harness/src/checks/sets.rs", "serves_properties": ["C08", "C09", "C10"], "kind_free_text": "stateright BFS of a cell-set machine + subset and permutation enumeration"},
        ],
        "checks": checks,
        "not_applicable": na,
        "notes": "All checks: ./check <ID> <quick|thorough>; exit 0 held / 1 VIOLATION / 2 machinery failure. Known findings: /verif/known_findings.json.",
    }
    json.dump(m, open(os.path.join(HERE, "MANIFEST.json"), "w"), indent=1)
    print("wrote MANIFEST.json with", len(checks), "checks;", len(na), "not yet claimed")

if __name__ == "__main__":
    main()
