#[path = "../../harness/src/race_ops.rs"]
mod race_ops;

use std::sync::atomic::{AtomicUsize, Ordering};
use std::sync::Arc;

/// a5race <op>[:<expected bits, comma separated hex>] ...     one argument per thread.
/// All threads are released together and call their op twice. Prints "R <t> <op> <first> <second>";
/// with expectations, any difference prints "MISMATCH ..." and exits with status 1.
fn main() {
    let specs: Vec<(usize, Option<String>)> = std::env::args()
        .skip(1)
        .filter_map(|a| {
            let mut it = a.splitn(2, ':');
            let i = it.next()?.parse().ok()?;
            Some((i, it.next().map(|s| s.to_string())))
        })
        .collect();
    let alpha = race_ops::alphabet();
    let n = specs.len();
    let gate = Arc::new(AtomicUsize::new(0));
    let hs: Vec<_> = specs
        .iter()
        .map(|(i, _)| {
            let op = alpha[*i % alpha.len()];
            let gate = gate.clone();
            std::thread::spawn(move || {
                gate.fetch_add(1, Ordering::SeqCst);
                while gate.load(Ordering::SeqCst) < n {
                    std::thread::yield_now();
                }
                let a = race_ops::run(op);
                let b = race_ops::run(op);
                (a, b)
            })
        })
        .collect();
    let f = |v: &Vec<u64>| v.iter().map(|x| format!("{:x}", x)).collect::<Vec<_>>().join(",");
    let mut bad = false;
    for (t, h) in hs.into_iter().enumerate() {
        let (a, b) = h.join().unwrap();
        println!("R {} {} {} {}", t, specs[t].0 % alpha.len(), f(&a), f(&b));
        if let Some(e) = &specs[t].1 {
            if &f(&a) != e || &f(&b) != e {
                println!("MISMATCH thread {} op {} got {} then {} expected {}", t, specs[t].0 % alpha.len(), f(&a), f(&b), e);
                bad = true;
            }
        }
    }
    if bad {
        std::process::exit(1);
    }
}
