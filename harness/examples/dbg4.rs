use a5verif::*;
fn main() {
    let rin = geo::face_inradius();
    for r in [3, 5] {
        let mut n = 0;
        for c in refcodec::all_cells(r) {
            let t = refcodec::decode(c).unwrap();
            if t.face != 3 { continue; }
            let (_, p) = geo::cell_poly(c).unwrap();
            // straddles an edge: some vertex beyond edge line, some inside
            let along = |q: &[f64;2]| { let a = q[1].atan2(q[0]); let k = (a / (72.0f64.to_radians())).round(); (q[0]*q[0]+q[1]*q[1]).sqrt() * (a - k*72.0f64.to_radians()).cos() };
            let mx = p.iter().map(|q| along(q)).fold(f64::MIN, f64::max);
            let mn = p.iter().map(|q| along(q)).fold(f64::MAX, f64::min);
            if mx > rin + 0.01 && mn < rin - 0.01 { println!("r={} {} {:?}", r, subj::hex(c), t); n += 1; if n >= 3 { break; } }
        }
    }
}
