use a5verif::*;
use a5verif::refgeom as rg;
fn main() {
    let a: Vec<f64> = std::env::args().skip(1).map(|x| x.parse().unwrap()).collect();
    let (lon, lat, res) = (a[0], a[1], a[2] as i32);
    let v = rg::ll_to_vec(lon, lat);
    let f = rg::frame();
    let rk = f.ranked(v);
    println!("nearest faces {:?}", &rk[..3]);
    for vv in f.vertices.iter() { let d = rg::ang(*vv, v); if d < 0.01 { println!("near frame vertex dist {:e}", d); } }
    for vv in f.midpoints.iter() { let d = rg::ang(*vv, v); if d < 0.01 { println!("near edge midpoint dist {:e}", d); } }
    let (id, br) = subj::lookup_branch(lon, lat, res);
    println!("lookup -> {:?} branch {}", id.clone().map(subj::hex), br);
    // exhaustive search for containing cells among all cells of res (if small) on nearest 3 faces
    if res <= 7 {
        for c in refcodec::all_cells(res) {
            let t = refcodec::decode(c).unwrap();
            if !rk[..3].iter().any(|x| x.1 as u64 == t.face) { continue; }
            if let Ok(d) = geo::planar_signed_dist(c, v) { if d > -1e-3 { println!("  cell {} face {} dist {:e}", subj::hex(c), t.face, d); } }
        }
    }
}
