use a5verif::*;
use a5verif::refgeom as rg;
use a5verif::checks::partition as pt;
fn main() {
    let fr = rg::frame();
    for r in [3, 5, 6] {
        let levels = pt::level_geoms(r).unwrap();
        let size = geo::cell_size(r);
        let mut bad = 0; let mut tot = 0; let mut ex: Vec<String> = vec![];
        for v in fr.vertices.iter().take(4) {
            for i in 0..40 { for j in 0..40 {
                let a = (i as f64 - 19.5) / 20.0 * 2.0 * size; let b = (j as f64 - 19.5) / 20.0 * 2.0 * size;
                let p = rg::offset(*v, a, b);
                let vs = pt::check_point(&levels, &fr, p, r);
                tot += 1;
                if !vs.is_empty() { bad += 1; if ex.len() < 3 { ex.push(format!("{} {:?}", vs[0].what, rg::vec_to_ll(p))); } }
            }}
        }
        println!("r={} bad {}/{} {:?}", r, bad, tot, ex);
    }
}
