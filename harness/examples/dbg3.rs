use a5verif::*;
use a5::coordinate_systems::LonLat;
fn main() {
    let a: Vec<String> = std::env::args().skip(1).collect();
    let (lon, lat): (f64, f64) = (a[0].parse().unwrap(), a[1].parse().unwrap());
    let v = refgeom::ll_to_vec(lon, lat);
    let sv = subj::from_lonlat(lon, lat).unwrap();
    println!("ref vec {:?}\nsub vec {:?}  diff {:e}", v, sv, refgeom::ang(v, sv));
    for h in &a[2..] {
        let c = u64::from_str_radix(h, 16).unwrap();
        let cell = a5::core::serialization::deserialize(c).unwrap();
        for _ in 0..2 {
        let d = a5::core::cell::a5cell_contains_point(&cell, LonLat::new(lon, lat));
        let (f, poly) = geo::cell_poly(c).unwrap();
        let p1 = subj::forward(v, f).unwrap();
        let p2 = subj::forward(sv, f).unwrap();
        println!("{} subject contains_point = {:?}  ref dist = {:e} / {:e}  p1 {:?} p2 {:?}", h, d, refgeom::signed_dist_convex(&poly, p1), refgeom::signed_dist_convex(&poly, p2), p1, p2);
        }
    }
}
