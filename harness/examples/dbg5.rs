use a5verif::refgeom as rg;
fn main() {
    // accuracy of the panel choice: compare 1/3-panel results with a 64-panel reference via closed form
    let mut worst: f64 = 0.0;
    for i in 0..=9000 {
        let lat = i as f64 / 100.0;
        let a = rg::authalic_lat(lat * rg::DEG);
        let b = rg::authalic_lat_closed_form(lat * rg::DEG);
        if lat <= 89.0 { worst = worst.max((a - b).abs()); }
    }
    println!("worst vs closed form (<=89 deg): {:e}", worst);
    // round trip geodetic -> authalic -> geodetic
    let mut w2: f64 = 0.0;
    for i in 0..=100000 { let psi = (i as f64 / 100000.0) * rg::PI / 2.0; let back = rg::geodetic_colat(rg::authalic_colat(psi)); w2 = w2.max((back - psi).abs() / psi.max(1e-300).max(1e-12)); }
    println!("worst relative colat round trip: {:e}", w2);
    let t = std::time::Instant::now(); let mut acc = 0.0; for i in 0..1000000 { acc += rg::ll_to_vec(i as f64 * 1e-4, (i % 1700) as f64 * 0.1 - 85.0)[0]; } println!("ll_to_vec {:?} per call ({})", t.elapsed() / 1000000, acc);
}
