use a5verif::*;
fn main() {
    let args: Vec<String> = std::env::args().collect();
    for a in &args[1..] {
        let c = u64::from_str_radix(a, 16).unwrap();
        let (f, p) = geo::cell_poly(c).unwrap();
        println!("{} face {} res {:?} area {:e}", a, f, refcodec::resolution(c), refgeom::shoelace(&p));
        for v in &p { println!("   {:.17e} {:.17e}", v[0], v[1]); }
    }
}
