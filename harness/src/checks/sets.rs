//! C08, C09, C10 — explicit-state search of a cell-set machine (stateright), all subsets of small
//! universes, all permutations of small sets. Transitions call the real code; RefTree is the oracle.
use crate::ev::{viol, Report, Sink, Viol};
use crate::refcodec as rc;
use crate::subj;
use rayon::prelude::*;
use serde_json::{json, Value};
use stateright::{Checker, Model, Property};
use std::collections::{BTreeSet, HashSet};
use std::sync::atomic::{AtomicU64, Ordering};
use std::sync::OnceLock;

fn setcase(s: &[u64]) -> Value {
    json!({"kind": "cellset", "cells": s.iter().map(|&c| subj::hex(c)).collect::<Vec<_>>()})
}
fn hexes(s: &[u64]) -> Vec<String> {
    s.iter().map(|&c| subj::hex(c)).collect()
}
fn sorted(mut v: Vec<u64>) -> Vec<u64> {
    v.sort_unstable();
    v
}
fn max_res(s: &[u64]) -> i32 {
    s.iter().map(|&c| rc::resolution(c).unwrap()).max().unwrap_or(-1)
}
fn cover_size(s: &[u64], r: i32) -> u128 {
    s.iter().map(|&c| rc::fanout(rc::resolution(c).unwrap(), r)).sum()
}

fn next_perm(a: &mut [usize]) -> bool {
    let n = a.len();
    if n < 2 {
        return false;
    }
    let mut i = n - 1;
    while i > 0 && a[i - 1] >= a[i] {
        i -= 1;
    }
    if i == 0 {
        return false;
    }
    let mut j = n - 1;
    while a[j] <= a[i - 1] {
        j -= 1;
    }
    a.swap(i - 1, j);
    a[i..].reverse();
    true
}

pub static PERMS_RUN: AtomicU64 = AtomicU64::new(0);

pub fn oracle_c08(s: &[u64], all_perms: bool) -> Vec<Viol> {
    let mut out = Vec::new();
    if s.is_empty() {
        match subj::compact(s) {
            Ok(v) if v.is_empty() => {}
            other => out.push(viol("C08/empty", format!("compact([]) = {:?}", other), setcase(s))),
        }
        return out;
    }
    let c = match subj::compact(s) {
        Ok(c) => c,
        Err(e) => return vec![viol("C08/compact-error", format!("compact failed on valid cells: {}", e), setcase(s))],
    };
    let cs: HashSet<u64> = c.iter().copied().collect();
    if cs.len() != c.len() {
        out.push(viol("C08/no-duplicates", format!("compact result {:?} repeats an element", hexes(&c)), setcase(s)));
    }
    if let Some(bad) = c.iter().find(|&&x| !rc::is_canonical(x)) {
        out.push(viol("C08/noncanonical-id", format!("compact returned {}", subj::hex(*bad)), setcase(s)));
        return out;
    }
    let r0 = max_res(s);
    for r in [r0, r0 + 1] {
        if r > 29 || r < 0 && r != r0 || cover_size(s, r) > 65536 || max_res(&c) > r {
            if max_res(&c) > r {
                out.push(viol("C08/cover", format!("compact result contains a cell finer than every input: {:?}", hexes(&c)), setcase(s)));
            }
            continue;
        }
        match subj::uncompact(&c, r) {
            Ok(u) => {
                let got: BTreeSet<u64> = u.iter().copied().collect();
                let want = rc::cover(s, r);
                if got != want {
                    let missing = want.difference(&got).count();
                    let extra = got.difference(&want).count();
                    out.push(viol(
                        "C08/cover",
                        format!("expanding compact(S) to r={} gives {} cells, expanding S gives {} ({} missing, {} extra); compact(S) = {:?}", r, got.len(), want.len(), missing, extra, hexes(&c)),
                        setcase(s),
                    ));
                }
            }
            Err(e) => out.push(viol("C08/cover", format!("uncompact(compact(S), {}) failed: {}; compact(S) = {:?}", r, e, hexes(&c)), setcase(s))),
        }
    }
    // order and multiplicity independence
    let base = sorted(c.clone());
    let mut variants: Vec<Vec<u64>> = Vec::new();
    let mut rev = s.to_vec();
    rev.reverse();
    variants.push(rev);
    let mut rot = s.to_vec();
    rot.rotate_left(s.len() / 2);
    variants.push(rot);
    let mut dbl = s.to_vec();
    dbl.extend(s.iter().rev());
    variants.push(dbl);
    let mut inter = Vec::new();
    for (i, &x) in s.iter().enumerate() {
        inter.push(x);
        if i % 2 == 0 {
            inter.push(x);
        }
    }
    variants.push(inter);
    // even/odd interleave
    let mut eo: Vec<u64> = s.iter().step_by(2).copied().collect();
    eo.extend(s.iter().skip(1).step_by(2).copied());
    variants.push(eo);
    if all_perms && s.len() <= 6 {
        let mut idx: Vec<usize> = (0..s.len()).collect();
        loop {
            variants.push(idx.iter().map(|&i| s[i]).collect());
            if !next_perm(&mut idx) {
                break;
            }
        }
    }
    PERMS_RUN.fetch_add(variants.len() as u64, Ordering::Relaxed);
    for v in variants {
        match subj::compact(&v) {
            Ok(cv) if sorted(cv.clone()) == base => {}
            other => {
                out.push(viol(
                    "C08/order-independence",
                    format!("compact of a reordering/duplication {:?} = {:?}, but compact(S) = {:?}", hexes(&v), other.map(|x| hexes(&x)), hexes(&base)),
                    setcase(s),
                ));
                break;
            }
        }
    }
    out
}

pub fn oracle_c09(s: &[u64], tmax: i32) -> Vec<Viol> {
    let mut out = Vec::new();
    for t in -1..=tmax {
        let finer = s.iter().any(|&c| rc::resolution(c).unwrap() > t);
        if !finer && cover_size(s, t) > 65536 {
            continue;
        }
        let case = json!({"kind": "uncompact", "cells": hexes(s), "target": t});
        let r = subj::uncompact(s, t);
        if finer {
            if let Ok(v) = &r {
                out.push(viol("C09/error-iff-finer", format!("an input is finer than target {} but uncompact returned {} cells", t, v.len()), case));
            } else if let Err(e) = &r {
                if e.starts_with("PANIC") {
                    out.push(viol("C09/panic", e.clone(), case));
                }
            }
            continue;
        }
        let v = match r {
            Ok(v) => v,
            Err(e) => {
                out.push(viol("C09/error-iff-finer", format!("no input is finer than target {} but uncompact failed: {}", t, e), case));
                continue;
            }
        };
        let total: u128 = cover_size(s, t);
        if v.len() as u128 != total {
            out.push(viol("C09/length", format!("uncompact to {} returned {} cells, the hierarchy fan-outs sum to {}", t, v.len(), total), case));
            continue;
        }
        let mut off = 0usize;
        for &x in s {
            let n = rc::fanout(rc::resolution(x).unwrap(), t) as usize;
            let block = &v[off..off + n];
            off += n;
            let got: HashSet<u64> = block.iter().copied().collect();
            let want: HashSet<u64> = rc::descendants(x, t).into_iter().collect();
            if got.len() != block.len() {
                out.push(viol("C09/block-distinct", format!("outputs for input {} at target {} repeat an element", subj::hex(x), t), case.clone()));
                break;
            }
            if got != want {
                out.push(viol("C09/block-descendants", format!("outputs for input {} at target {} are not exactly its descendants (in input order)", subj::hex(x), t), case.clone()));
                break;
            }
        }
    }
    out
}

pub fn oracle_c10(s: &[u64]) -> Vec<Viol> {
    let mut out = Vec::new();
    if rc::has_overlap(s) {
        return out;
    }
    let c = match subj::compact(s) {
        Ok(c) => c,
        Err(e) => return vec![viol("C10/compact-error", format!("compact failed on valid cells: {}", e), setcase(s))],
    };
    let cs = sorted(c.clone());
    let mut dedup = cs.clone();
    dedup.dedup();
    if dedup.iter().any(|&x| !rc::is_canonical(x)) {
        return vec![viol("C10/noncanonical-id", format!("compact returned {:?}", hexes(&cs)), setcase(s))];
    }
    if rc::has_complete_sibling_group(&dedup) {
        out.push(viol("C10/maximal", format!("compact result {:?} still contains a complete sibling group", hexes(&cs)), setcase(s)));
    }
    let want = rc::compact(s);
    if dedup != want {
        out.push(viol("C10/canonical", format!("compact(S) = {:?}, the canonical description of the region is {:?}", hexes(&cs), hexes(&want)), setcase(s)));
    }
    match subj::compact(&c) {
        Ok(cc) => {
            let a: BTreeSet<u64> = cc.iter().copied().collect();
            let b: BTreeSet<u64> = c.iter().copied().collect();
            if a != b {
                out.push(viol("C10/idempotent", format!("compact(compact(S)) = {:?} differs from compact(S) = {:?}", hexes(&sorted(cc)), hexes(&cs)), setcase(s)));
            }
        }
        Err(e) => out.push(viol("C10/idempotent", format!("compact(compact(S)) failed: {}", e), setcase(s))),
    }
    out
}

// ------------------------------------------------------------------------ the machine

#[derive(Clone, Debug, Hash, PartialEq, Eq)]
pub struct SetState {
    pub cells: Vec<u64>, // sorted multiset
    pub depth: u8,
}
#[derive(Clone, Debug, Hash, PartialEq, Eq)]
pub enum Act {
    Split(usize),
    Drop(usize),
    AddAncestor(usize),
    Dup(usize),
}
#[derive(Clone)]
pub struct SetMachine {
    pub prop: u8, // 8, 9, 10
    pub max_res: i32,
    pub max_len: usize,
    pub max_depth: u8,
    pub inits: Vec<Vec<u64>>,
}

struct Glob {
    sink: Sink,
    aperture_states: AtomicU64,
    overlapping_states: AtomicU64,
    evaluated: AtomicU64,
}
static GLOB: OnceLock<Glob> = OnceLock::new();
fn glob() -> &'static Glob {
    GLOB.get_or_init(|| Glob { sink: Sink::new(), aperture_states: AtomicU64::new(0), overlapping_states: AtomicU64::new(0), evaluated: AtomicU64::new(0) })
}

fn eval_state(m: &SetMachine, st: &SetState) -> bool {
    let g = glob();
    g.evaluated.fetch_add(1, Ordering::Relaxed);
    let s = &st.cells;
    let rs: HashSet<i32> = s.iter().map(|&c| rc::resolution(c).unwrap()).collect();
    if rs.len() > 1 && rs.iter().any(|&r| r <= 1) {
        g.aperture_states.fetch_add(1, Ordering::Relaxed);
    }
    if rc::has_overlap(s) {
        g.overlapping_states.fetch_add(1, Ordering::Relaxed);
    }
    let v = match m.prop {
        8 => oracle_c08(s, s.len() <= 5),
        9 => oracle_c09(s, m.max_res + 1),
        _ => oracle_c10(s),
    };
    g.sink.extend(v);
    true
}

impl Model for SetMachine {
    type State = SetState;
    type Action = Act;
    fn init_states(&self) -> Vec<SetState> {
        self.inits.iter().map(|c| SetState { cells: sorted(c.clone()), depth: 0 }).collect()
    }
    fn actions(&self, st: &SetState, acts: &mut Vec<Act>) {
        if st.depth >= self.max_depth {
            return;
        }
        let mut prev = None;
        for (i, &c) in st.cells.iter().enumerate() {
            if prev == Some(c) {
                continue; // equal elements give equal successors
            }
            prev = Some(c);
            let r = rc::resolution(c).unwrap();
            if r < self.max_res {
                acts.push(Act::Split(i));
            }
            acts.push(Act::Drop(i));
            if r >= 0 {
                acts.push(Act::AddAncestor(i));
            }
            acts.push(Act::Dup(i));
        }
    }
    fn next_state(&self, st: &SetState, a: Act) -> Option<SetState> {
        let mut cells = st.cells.clone();
        match a {
            Act::Split(i) => {
                let c = cells.remove(i);
                // transition through the real code
                let ch = subj::children(c, None).ok()?;
                cells.extend(ch);
            }
            Act::Drop(i) => {
                cells.remove(i);
            }
            Act::AddAncestor(i) => {
                let p = subj::parent(cells[i], None).ok()?;
                cells.push(p);
            }
            Act::Dup(i) => {
                let c = cells[i];
                // at most two copies of a cell
                if cells.iter().filter(|&&x| x == c).count() >= 2 {
                    return None;
                }
                cells.push(c);
            }
        }
        if cells.len() > self.max_len || cells.iter().any(|&c| !rc::is_canonical(c)) {
            return None;
        }
        cells.sort_unstable();
        Some(SetState { cells, depth: st.depth + 1 })
    }
    fn properties(&self) -> Vec<Property<Self>> {
        vec![Property::always("oracle", |m: &SetMachine, s: &SetState| eval_state(m, s))]
    }
}

/// C09 beyond the machine's bounds: (i) every window of 2 and 3 numerically consecutive ids of a
/// resolution (covers every quintant and face boundary), (ii) deep inputs with targets up to 29,
fn extra_c09(tier: &str) -> (u64, Vec<Viol>) {
    let mut lists: Vec<(Vec<u64>, i32)> = Vec::new();
    let rmax = if tier == "quick" { 3 } else { 5 };
    for r in 0..=rmax {
        let mut all = rc::all_cells(r);
        all.sort_unstable();
        for w in [2usize, 3] {
            for win in all.windows(w) {
                lists.push((win.to_vec(), r + 1));
                if r + 2 <= rmax + 1 {
                    lists.push((win.to_vec(), r + 2));
                }
                let mut rev = win.to_vec();
                rev.reverse();
                lists.push((rev, r + 1));
            }
        }
    }
    let chains = crate::enumerate::fam_chains(2, 29);
    let step = if tier == "quick" { 97 } else { 7 };
    for ch in chains.iter().step_by(step) {
        for (i, &c) in ch.iter().enumerate() {
            let r = rc::resolution(c).unwrap();
            if r < 18 {
                continue;
            }
            for t in [r, r + 1, r + 3, 27, 28, 29] {
                if t >= r && t <= 29 && rc::fanout(r, t) <= 65536 {
                    lists.push((vec![c], t));
                    if i + 2 < ch.len() {
                        // two inputs of different resolution, deeper one first
                        let d = ch[i + 2];
                        if rc::resolution(d).unwrap() <= t {
                            lists.push((vec![d, c], t));
                        }
                    }
                }
            }
        }
    }
    // (lists mixing a finer-than-target cell with very coarse cells are probed by C14 in child processes)
    let n = lists.len() as u64;
    let v: Vec<Viol> = lists
        .par_iter()
        .flat_map(|(l, t)| {
            let finer = l.iter().any(|&c| rc::resolution(c).unwrap() > *t);
            let case = json!({"kind": "uncompact", "cells": hexes(l), "target": t});
            let r = subj::uncompact(l, *t);
            let mut out = Vec::new();
            if finer {
                match r {
                    Err(e) if e.starts_with("PANIC") => out.push(viol("C09/panic", format!("an input is finer than the target: expected Err, got {}", e), case)),
                    Ok(v) => out.push(viol("C09/error-iff-finer", format!("an input is finer than target {} but uncompact returned {} cells", t, v.len()), case)),
                    _ => {}
                }
                return out;
            }
            if cover_size(l, *t) > 65536 {
                return out;
            }
            match r {
                Ok(v) => {
                    let mut off = 0usize;
                    let total = cover_size(l, *t) as usize;
                    if v.len() != total {
                        out.push(viol("C09/length", format!("uncompact to {} returned {} cells, the hierarchy fan-outs sum to {}", t, v.len(), total), case));
                        return out;
                    }
                    for &x in l {
                        let k = rc::fanout(rc::resolution(x).unwrap(), *t) as usize;
                        let got: HashSet<u64> = v[off..off + k].iter().copied().collect();
                        let want: HashSet<u64> = rc::descendants(x, *t).into_iter().collect();
                        off += k;
                        if got != want {
                            out.push(viol("C09/block-descendants", format!("outputs for input {} at target {} are not exactly its descendants (in input order)", subj::hex(x), t), case));
                            break;
                        }
                    }
                }
                Err(e) => out.push(viol("C09/error-iff-finer", format!("no input is finer than target {} but uncompact failed: {}", t, e), case)),
            }
            out
        })
        .collect();
    (n, v)
}

// ------------------------------------------------------------------------ universes

fn universes(tier: &str) -> Vec<(String, Vec<u64>)> {
    let base = rc::all_cells(0);
    let mut out = Vec::new();
    let quints = |f: u64| rc::children(base[f as usize]);
    // sparse universe with resolution gaps: complete sibling groups at r=1, 3 and 5 on different
    // faces with empty levels between them, plus lone fine cells (levels that only fill by merging)
    {
        let q2 = quints(2);
        let r2 = rc::children(q2[3]);
        let r3 = rc::children(r2[1]);
        let q3 = quints(3);
        let r4 = rc::descendants(q3[0], 4);
        let r5 = rc::children(r4[5]);
        let lone7 = rc::descendants(quints(5)[2], 7);
        let mut u: Vec<u64> = quints(1);
        u.extend(r3.iter().copied());
        u.extend(r5.iter().copied());
        u.push(lone7[100]);
        u.push(lone7[4000]);
        out.push(("resolution gaps: 5 quintants (face 1) + 4 r=3 siblings (face 2) + 4 r=5 siblings (face 3) + 2 lone r=7 cells".to_string(), u));
    }
    // deep universe: sibling groups at the finest resolutions (r=28 children and r=29 grandchildren of
    // one r=27 cell, plus the cell itself for overlap)
    {
        let p27 = crate::enumerate::fam_chains(2, 27)[77].last().copied().unwrap();
        let ch = rc::children(p27);
        let mut u = vec![p27];
        u.extend(ch.iter().copied());
        let ngrand = if tier == "quick" { 2 } else { 4 };
        for c in ch.iter().take(ngrand) {
            u.extend(rc::children(*c));
        }
        out.push((format!("deep: one r=27 cell + its 4 children (r=28) + {} grandchildren (r=29)", 4 * ngrand), u));
    }
    // cousin universe: cells that sit at the same relative position under the four children B_i of
    // one cell A, at several depths below B_i (numeric spacing = the sibling stride of a COARSER
    // level), so that levels between them and A stay empty (resolution gaps)
    {
        let a = rc::descendants(quints(4)[1], 3)[5];
        let b = rc::children(a);
        let mut u: Vec<u64> = Vec::new();
        let under = |c: u64, path: &[usize]| -> u64 {
            let mut x = c;
            for &d in path {
                x = rc::children(x)[d];
            }
            x
        };
        for bi in &b {
            u.push(under(*bi, &[0, 0]));
            u.push(under(*bi, &[1, 2]));
            u.push(under(*bi, &[3]));
            u.push(under(*bi, &[0, 0, 0, 0]));
        }
        if tier != "quick" {
            u.extend(quints(8));
        }
        out.push(("cousins: under each of the 4 children of one r=3 cell the descendants at paths 00, 12, 3 and 0000 (r=6,6,5,8) (+ 5 quintants of another face)".to_string(), u));
    }
    if tier == "quick" {
        // 12 base cells + the 5 quintants of face 1 (quintant codes 5..9 interleave with base cells 5..9)
        let mut u = base.clone();
        u.extend(quints(1));
        out.push(("12 base cells + quintants of face 1".to_string(), u));
        // base cells 0..2 + 5 quintants of face 0 + the children of two of them
        let q0 = quints(0);
        let mut u = vec![base[0], base[1], base[2]];
        u.extend(q0.iter().copied());
        u.extend(rc::children(q0[1]));
        u.extend(rc::children(q0[2]));
        out.push(("base 0..2 + quintants of face 0 + children of two quintants".to_string(), u));
    } else {
        for f in 0..3u64 {
            let q = quints(f);
            let mut u = base.clone();
            u.extend(q.iter().copied());
            u.extend(rc::children(q[1]));
            out.push((format!("12 base cells + quintants of face {} + children of one quintant", f), u));
        }
        let q = quints(1);
        let mut u = vec![q[0]];
        let ch = rc::children(q[0]);
        u.extend(ch.iter().copied());
        for c in &ch {
            u.extend(rc::children(*c));
        }
        out.push(("one quintant + 4 children + 16 grandchildren".to_string(), u));
        let mut u = vec![0u64];
        u.extend(base.iter().copied());
        u.extend(quints(2));
        u.extend(rc::children(quints(2)[0]).iter().take(2));
        out.push(("world + 12 base + quintants of face 2 + 2 of 4 children".to_string(), u));
    }
    out
}

pub fn run(prop: u8, tier: &str) -> Report {
    let mut rep = Report::new("model_checking");
    let base = rc::all_cells(0);
    let q1 = rc::children(base[1]);
    let inits = vec![vec![0u64], vec![base[3]], vec![q1[0]], vec![rc::children(q1[2])[1]], vec![base[0], base[11]]];
    let (mut max_res, mut max_len, mut max_depth) = if tier == "quick" { (2, 24, 5u8) } else { (3, 24, 6u8) };
    // experiment knobs (not used by the registered commands)
    if let Ok(v) = std::env::var("A5_SET_BOUNDS") {
        let p: Vec<i64> = v.split(',').filter_map(|x| x.parse().ok()).collect();
        if p.len() == 3 {
            max_res = p[0] as i32;
            max_len = p[1] as usize;
            max_depth = p[2] as u8;
        }
    }
    let m = SetMachine { prop, max_res, max_len, max_depth, inits };
    let threads = std::thread::available_parallelism().map(|n| n.get()).unwrap_or(4);
    let cap: usize = 30_000_000;
    let checker = m.clone().checker().threads(threads).target_state_count(cap).spawn_bfs().join();
    let states = checker.unique_state_count() as u64;
    let generated = checker.state_count() as u64;
    let g = glob();
    let mut runs_agree = true;
    if tier != "quick" {
        // second run: counts must be identical (depth is part of the state key)
        let before = g.evaluated.load(Ordering::Relaxed);
        let c2 = m.clone().checker().threads(threads).target_state_count(cap).spawn_bfs().join();
        runs_agree = c2.unique_state_count() as u64 == states;
        let _ = before;
    }
    let mut subsets = 0u64;
    let mut nonoverlap = 0u64;
    // all subsets of the universes
    for (name, u) in universes(tier) {
        let n = u.len();
        let cnt = AtomicU64::new(0);
        (0u64..(1u64 << n)).into_par_iter().for_each(|mask| {
            let s: Vec<u64> = (0..n).filter(|i| mask >> i & 1 == 1).map(|i| u[i]).collect();
            let v = match prop {
                8 => oracle_c08(&s, false),
                9 => {
                    if s.len() <= 8 {
                        oracle_c09(&s, (u.iter().map(|&c| rc::resolution(c).unwrap()).max().unwrap_or(0) + 1).min(29))
                    } else {
                        vec![]
                    }
                }
                _ => {
                    if !rc::has_overlap(&s) {
                        cnt.fetch_add(1, Ordering::Relaxed);
                    }
                    oracle_c10(&s)
                }
            };
            g.sink.extend(v);
        });
        subsets += 1u64 << n;
        nonoverlap += cnt.load(Ordering::Relaxed);
        rep.sample(json!({"universe": name, "size": n, "subsets": 1u64 << n}));
    }
    let mut extra_lists = 0u64;
    if prop == 9 {
        let (n, v) = extra_c09(tier);
        extra_lists = n;
        g.sink.extend(v);
        let (n, longest, v) = crate::checks::longlists::uncompact_long(tier);
        g.sink.extend(v);
        rep.set("long_lists_evaluated", json!(n));
        rep.set("longest_list", json!(longest));
        let (n, v) = crate::checks::longlists::uncompact_repeats(tier);
        g.sink.extend(v);
        rep.set("lists_with_repeats_evaluated", json!(n));
        let (n, v) = crate::checks::longlists::call_ladders("C09/after-many-calls", &["uncompact"]);
        g.sink.extend(v);
        rep.set("call_ladder_calls", json!(n));
        let (n, v) = crate::checks::longlists::collision_circuits(tier, "C09/after-call");
        g.sink.extend(v);
        rep.set("call_pairs_on_one_thread", json!(n));
        let (n, v) = crate::checks::longlists::big_uncompact(tier);
        g.sink.extend(v);
        rep.set("expansions_above_4^8_per_input", json!(n));
    } else {
        let (n, longest, v) = crate::checks::longlists::compact_runs(prop, tier);
        g.sink.extend(v);
        rep.set("long_run_inputs_evaluated", json!(n));
        rep.set("longest_list", json!(longest));
        {
            let (n, v) = crate::checks::longlists::compact_refusal_circuit(if prop == 8 { "C08/after-call" } else { "C10/after-call" });
            g.sink.extend(v);
            rep.set("compact_call_pairs_incl_refused", json!(n));
        }
        {
            let (n, v) = crate::checks::longlists::call_ladders(if prop == 8 { "C08/after-many-calls" } else { "C10/after-many-calls" }, &["compact"]);
            g.sink.extend(v);
            rep.set("call_ladder_calls", json!(n));
        }
        {
            let (n, v) = crate::checks::longlists::compact_complements(prop, tier);
            g.sink.extend(v);
            rep.set("sphere_minus_one_or_two_cells_sets", json!(n));
        }
        if prop == 8 {
            let (n, v) = crate::checks::longlists::compact_cardinality(tier);
            g.sink.extend(v);
            rep.set("cardinality_coincidence_sets_evaluated", json!(n));
        }
        let (n, v) = crate::checks::longlists::compact_alias(prop, tier);
        g.sink.extend(v);
        rep.set("stride_alias_sets_evaluated", json!(n));
    }
    let (viols, _) = g.sink.drain();
    rep.sink.extend(viols);
    rep.set("extra_lists_evaluated", json!(extra_lists));
    rep.set("states", json!(states));
    rep.set("transitions", json!(generated.saturating_sub(m.inits.len() as u64)));
    rep.set("traces_validated_against_impl", json!(states));
    rep.set("evaluations", json!(g.evaluated.load(Ordering::Relaxed) + subsets));
    rep.set("distinct_nontrivial", json!(g.aperture_states.load(Ordering::Relaxed)));
    rep.set("rule", json!(format!(
        "stateright BFS of the cell-set machine (Split/Drop/AddAncestor/Dup through real cell_to_children/cell_to_parent) from {} initial states, max resolution {}, list length <= {}, depth <= {} (depth is part of the state key); oracle on every state; plus all 2^|U| subsets of {} universes; plus structured long inputs (see long_* keys: every run [a,b) of 4096-leaf universes with a,b around the powers of 2 and 4, in leaf form and in mixed-resolution forms, ascending and reordered; sets aliasing a sibling group modulo m*4^k; length ladder 255..4097 x position patterns; all short lists with repeats); distinct_nontrivial = states mixing the 12/5 aperture levels with other resolutions",
        m.inits.len(), max_res, max_len, max_depth, universes(tier).len())));
    rep.set("exhaustive", json!((checker.state_count() as usize) < cap));
    rep.set("state_cap", json!(cap));
    rep.set("overlapping_states", json!(g.overlapping_states.load(Ordering::Relaxed)));
    rep.set("subsets_evaluated", json!(subsets));
    rep.set("nonoverlapping_subsets", json!(nonoverlap));
    rep.set("reorderings_run", json!(PERMS_RUN.load(Ordering::Relaxed)));
    rep.set("max_depth_reached", json!(checker.max_depth()));
    rep.set("second_run_same_counts", json!(runs_agree));
    rep.sample(json!({"state": hexes(&[base[3], q1[0], rc::children(q1[2])[1]]), "via": ["Split", "AddAncestor", "Drop"]}));
    rep.assume("every transition is a call of the real hierarchy functions, so every explored state is a trace of the implementation");
    rep.assume("sets beyond the stated resolution/length/depth bounds are not explored");
    if !runs_agree {
        rep.sink.push(viol("MACHINERY/nondeterministic-search", "two runs of the search gave different state counts".into(), json!({"kind": "machinery"})));
    }
    rep
}

pub fn replay(prop: u8, case: &Value) -> Vec<Viol> {
    if let Some(v) = crate::checks::longlists::replay(case) {
        return v;
    }
    let cells: Vec<u64> = case["cells"].as_array().map(|a| a.iter().map(|x| u64::from_str_radix(x.as_str().unwrap(), 16).unwrap()).collect()).unwrap_or_default();
    match prop {
        8 => oracle_c08(&cells, true),
        9 => oracle_c09(&cells, 4),
        _ => oracle_c10(&cells),
    }
}
