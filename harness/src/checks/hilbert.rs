//! C17 — within a quintant the curve position <-> cell mapping is a bijection.
//! (a) real outputs: all s < 4^n, 6 orientations: distinct pentagons, centres in the quintant
//!     triangle, locating the centre returns s;
//! (b) the digit walk as a 16-state Mealy machine (model), bound to the code by exhaustive
//!     conformance, then explored as a pair automaton: injective at every depth.
use crate::ev::{viol, Report, Viol};
use crate::refgeom as rg;
use crate::refgeom::P2;
use crate::subj;
use a5::coordinate_systems::Face;
use a5::core::hilbert::{ij_to_s, s_to_anchor, s_to_anchor_internal, Orientation};
use rayon::prelude::*;
use serde_json::{json, Value};
use std::collections::{HashSet, VecDeque};
use std::sync::atomic::{AtomicU64, Ordering};

pub const ORIENTATIONS: [(Orientation, &str); 6] = [
    (Orientation::UV, "uv"),
    (Orientation::VU, "vu"),
    (Orientation::UW, "uw"),
    (Orientation::WU, "wu"),
    (Orientation::VW, "vw"),
    (Orientation::WV, "wv"),
];

fn quintant_triangle() -> Vec<P2> {
    let t = a5::core::tiling::get_quintant_vertices(0);
    rg::ccw(t.get_vertices_vec().iter().map(|f| [f.x(), f.y()]).collect())
}

/// pentagon centre (planar, quintant 0) of position s at depth n
fn centre_of(s: u64, n: usize, o: Orientation) -> Result<P2, String> {
    subj::guard_val(|| {
        let a = s_to_anchor(s, n, o);
        let p = a5::core::tiling::get_pentagon_vertices(n as i32, 0, &a);
        let c = p.get_center();
        [c.x(), c.y()]
    })
}

fn locate(c: P2, n: usize, o: Orientation) -> Result<u64, String> {
    subj::guard_val(|| {
        let k = (1u64 << n) as f64;
        let ij = a5::core::coordinate_transforms::face_to_ij(Face::new(c[0] * k, c[1] * k));
        ij_to_s(ij, n, o)
    })
}

pub fn check_position(s: u64, n: usize, oi: usize, tri: &[P2]) -> (Option<P2>, Vec<Viol>) {
    let (o, name) = ORIENTATIONS[oi];
    let case = json!({"kind": "position", "s": s, "n": n, "orientation": name});
    let c = match centre_of(s, n, o) {
        Ok(c) => c,
        Err(e) => return (None, vec![viol("C17/panic", e, case)]),
    };
    let mut out = Vec::new();
    let d = rg::signed_dist_convex(tri, c);
    if !(d >= -1e-12) {
        out.push(viol("C17/centre-in-triangle", format!("centre of position {} at depth {} ({}) lies {:.3e} outside the quintant triangle", s, n, name, -d), case.clone()));
    }
    match locate(c, n, o) {
        Ok(s2) if s2 == s => {}
        other => out.push(viol("C17/locate-centre", format!("locating the centre of position {} at depth {} ({}) returns {:?}", s, n, name, other), case)),
    }
    (Some(c), out)
}

/// pairwise distinctness of centres: sort by x, sweep
fn check_distinct(mut pts: Vec<(f64, f64, u64)>, pitch: f64, n: usize, name: &str) -> Vec<Viol> {
    let thr = 0.2 * pitch;
    pts.par_sort_unstable_by(|a, b| a.0.partial_cmp(&b.0).unwrap());
    let found: Vec<Viol> = (0..pts.len())
        .into_par_iter()
        .filter_map(|i| {
            let a = pts[i];
            let mut j = i + 1;
            while j < pts.len() && pts[j].0 - a.0 < thr {
                let b = pts[j];
                if (b.1 - a.1).abs() < thr && ((b.0 - a.0).powi(2) + (b.1 - a.1).powi(2)).sqrt() < thr {
                    return Some(viol(
                        "C17/distinct",
                        format!("positions {} and {} at depth {} ({}) give pentagons whose centres are {:.3e} apart (cell pitch {:.3e})", a.2, b.2, n, name, ((b.0 - a.0).powi(2) + (b.1 - a.1).powi(2)).sqrt(), pitch),
                        json!({"kind": "position_pair", "s1": a.2, "s2": b.2, "n": n, "orientation": name}),
                    ));
                }
                j += 1;
            }
            None
        })
        .collect();
    found.into_iter().take(4).collect()
}

// ---------------------------------------------------------------- the digit-walk model

const NO: i8 = 1;
const YES: i8 = -1;
const M_PATTERN: [usize; 8] = [0, 1, 3, 4, 5, 6, 7, 2];
const M_PATTERN_FLIPPED: [usize; 8] = [0, 1, 2, 7, 3, 4, 5, 6];
fn m_flips(d: u8) -> [i8; 2] {
    match d {
        0 => [NO, NO],
        1 => [NO, YES],
        2 => [NO, NO],
        _ => [YES, NO],
    }
}
fn m_kj(d: u8, f: [i8; 2]) -> (f64, f64) {
    let (p, q): ((f64, f64), (f64, f64)) = match (f[0], f[1]) {
        (NO, NO) => ((1.0, 0.0), (0.0, 1.0)),
        (YES, NO) => ((0.0, -1.0), (-1.0, 0.0)),
        (NO, YES) => ((0.0, 1.0), (1.0, 0.0)),
        _ => ((-1.0, 0.0), (0.0, -1.0)),
    };
    match d {
        0 => (0.0, 0.0),
        1 => p,
        2 => (q.0 + p.0, q.1 + p.1),
        _ => (q.0 + 2.0 * p.0, q.1 + 2.0 * p.1),
    }
}
#[derive(Clone, Copy, PartialEq, Eq, Hash, Debug, PartialOrd, Ord)]
pub struct MState {
    fx: i8,
    fy: i8,
    pending: u8,
}
/// one step of the Mealy machine: read raw child digit c; output the finalised parent digit
pub fn m_step(st: MState, c: u8, invert_j: bool, flip_ij: bool) -> (MState, u8) {
    let pattern = if flip_ij { &M_PATTERN_FLIPPED } else { &M_PATTERN };
    let parent = st.pending;
    let f = st.fx + st.fy;
    let (needs_shift, first) = if invert_j != (f == 0) { (parent == 1 || parent == 2, parent == 1) } else { (parent < 2, parent == 0) };
    let (mut np, mut nc) = (parent, c);
    if needs_shift {
        let src = if first { c as usize } else { c as usize + 4 };
        let dst = pattern[src];
        nc = (dst % 4) as u8;
        np = ((parent as usize + 4 + dst / 4 - src / 4) % 4) as u8;
    }
    let nf = m_flips(np);
    (MState { fx: st.fx * nf[0], fy: st.fy * nf[1], pending: nc }, np)
}
/// model prediction of s_to_anchor_internal: (k, offset_i, offset_j, flips)
pub fn m_anchor(s: u64, n: usize, invert_j: bool, flip_ij: bool) -> (u8, f64, f64, [i8; 2]) {
    // raw digits, most significant first
    let raw: Vec<u8> = (0..n).rev().map(|i| ((s >> (2 * i)) & 3) as u8).collect();
    let mut fin: Vec<u8> = Vec::with_capacity(n);
    let mut st = MState { fx: NO, fy: NO, pending: raw[0] };
    for &c in &raw[1..] {
        let (ns, out) = m_step(st, c, invert_j, flip_ij);
        fin.push(out);
        st = ns;
    }
    fin.push(st.pending);
    let (mut ox, mut oy) = (0.0, 0.0);
    let mut fl = [NO, NO];
    for &d in &fin {
        ox *= 2.0;
        oy *= 2.0;
        let (a, b) = m_kj(d, fl);
        ox += a;
        oy += b;
        let nf = m_flips(d);
        fl = [fl[0] * nf[0], fl[1] * nf[1]];
    }
    (*fin.last().unwrap(), ox - oy, oy, fl)
}

/// conformance of the model with the real s_to_anchor_internal on all s < 4^n
fn conformance(nmax: usize) -> (u64, Option<String>) {
    let agreed = AtomicU64::new(0);
    let mut first_bad: Option<String> = None;
    for (inv, flip) in [(false, false), (true, false), (false, true)] {
        for n in 1..=nmax {
            let bad: Option<u64> = (0..(1u64 << (2 * n))).into_par_iter().find_map_first(|s| {
                let r = subj::guard_val(|| s_to_anchor_internal(s, n, inv, flip));
                let m = m_anchor(s, n, inv, flip);
                match r {
                    Ok(a) if a.k == m.0 && a.offset.x().to_bits() == (m.1 + 0.0).to_bits() && a.offset.y().to_bits() == (m.2 + 0.0).to_bits() && a.flips == m.3 => {
                        agreed.fetch_add(1, Ordering::Relaxed);
                        None
                    }
                    Ok(a) if a.k == m.0 && a.offset.x() == m.1 && a.offset.y() == m.2 && a.flips == m.3 => {
                        agreed.fetch_add(1, Ordering::Relaxed);
                        None
                    }
                    _ => Some(s),
                }
            });
            if let Some(s) = bad {
                if first_bad.is_none() {
                    first_bad = Some(format!("s={} n={} invert_j={} flip_ij={}", s, n, inv, flip));
                }
            }
        }
    }
    (agreed.load(Ordering::Relaxed), first_bad)
}

/// explore the machine and its pair automaton; returns (states, transitions, pair_states, collision)
fn explore_automaton(inv: bool, flip: bool) -> (usize, usize, usize, Option<String>) {
    let mut seen: HashSet<MState> = HashSet::new();
    let mut q: VecDeque<MState> = VecDeque::new();
    for d in 0..4u8 {
        let s = MState { fx: NO, fy: NO, pending: d };
        if seen.insert(s) {
            q.push_back(s);
        }
    }
    let mut trans = 0;
    while let Some(s) = q.pop_front() {
        for c in 0..4u8 {
            let (ns, _) = m_step(s, c, inv, flip);
            trans += 1;
            if seen.insert(ns) {
                q.push_back(ns);
            }
        }
    }
    // pair automaton: (a, b, differed) with equal outputs so far
    let mut pseen: HashSet<(MState, MState, bool)> = HashSet::new();
    let mut pq: VecDeque<(MState, MState, bool)> = VecDeque::new();
    for d1 in 0..4u8 {
        for d2 in 0..4u8 {
            let p = (MState { fx: NO, fy: NO, pending: d1 }, MState { fx: NO, fy: NO, pending: d2 }, d1 != d2);
            if pseen.insert(p) {
                pq.push_back(p);
            }
        }
    }
    let mut collision = None;
    while let Some((a, b, diff)) = pq.pop_front() {
        // end of string here: the remaining output is the pending digit
        if diff && a.pending == b.pending && collision.is_none() {
            collision = Some(format!("two different digit strings finish with equal outputs in pair state {:?} / {:?}", a, b));
        }
        for c1 in 0..4u8 {
            for c2 in 0..4u8 {
                let (na, oa) = m_step(a, c1, inv, flip);
                let (nb, ob) = m_step(b, c2, inv, flip);
                if oa != ob {
                    continue;
                }
                let p = (na, nb, diff || c1 != c2);
                if pseen.insert(p) {
                    pq.push_back(p);
                }
            }
        }
    }
    (seen.len(), trans, pseen.len(), collision)
}

fn deep_positions(n: usize) -> Vec<u64> {
    let bits = 2 * n as u32;
    let max = if bits >= 64 { u64::MAX } else { (1u64 << bits) - 1 };
    let mut v = vec![0, 1, 2, 3, max, max - 1, max - 2, max / 3, max / 3 * 2, max / 5, max / 5 * 4, max / 15 * 11, max / 15 * 7];
    for k in 0..n {
        for d in 1..4u64 {
            v.push(d << (2 * k)); // single digit
            v.push(max ^ (d << (2 * k)));
        }
        v.push((1u64 << (2 * k)) - 1);
    }
    // neighbours straddling parent boundaries
    for k in 1..n {
        let b = 1u64 << (2 * k);
        v.push(b - 1);
        v.push(b);
        v.push(max - b);
        v.push(max - b + 1);
    }
    let mut x: u64 = 0x2545F4914F6CDD1D ^ n as u64;
    for _ in 0..64 {
        x ^= x << 13;
        x ^= x >> 7;
        x ^= x << 17;
        v.push(x & max);
    }
    v.retain(|&s| s <= max);
    v.sort_unstable();
    v.dedup();
    v
}

pub fn run(tier: &str) -> Report {
    let mut rep = Report::new("model_checking");
    let nmax = if tier == "quick" { 10 } else { 12 };
    let tri = quintant_triangle();
    let tri_area = rg::shoelace(&tri);
    let mut evals = 0u64;
    for n in 1..=nmax {
        let count = 1u64 << (2 * n);
        let pitch = (tri_area / count as f64).sqrt();
        for oi in 0..6 {
            let res: Vec<(Option<P2>, Vec<Viol>, u64)> = (0..count)
                .into_par_iter()
                .map(|s| {
                    let (c, v) = check_position(s, n, oi, &tri);
                    (c, v, s)
                })
                .collect();
            evals += count;
            let mut pts = Vec::with_capacity(res.len());
            for (c, v, s) in res {
                rep.sink.extend(v);
                if let Some(c) = c {
                    pts.push((c[0], c[1], s));
                }
            }
            rep.sink.extend(check_distinct(pts, pitch, n, ORIENTATIONS[oi].1));
        }
    }
    // deep structured positions n = nmax+1 .. 28
    let mut deep = 0u64;
    for n in (nmax + 1)..=29 {
        let pos = deep_positions(n);
        let pitch = (tri_area / 4f64.powi(n as i32)).sqrt();
        for oi in 0..6 {
            let res: Vec<(Option<P2>, Vec<Viol>, u64)> = pos
                .par_iter()
                .map(|&s| {
                    let (c, v) = check_position(s, n, oi, &tri);
                    (c, v, s)
                })
                .collect();
            deep += pos.len() as u64;
            let mut pts = Vec::new();
            for (c, v, s) in res {
                rep.sink.extend(v);
                if let Some(c) = c {
                    pts.push((c[0], c[1], s));
                }
            }
            rep.sink.extend(check_distinct(pts, pitch, n, ORIENTATIONS[oi].1));
        }
    }
    // order pass: on ONE fresh thread the depths are visited in a jumping order (never an ascending
    // sweep), and between computing a centre and locating it a walk of ANOTHER depth and orientation is
    // made, so that per-thread tables grown per depth and constants remembered from the previous
    // Hilbert call meet every kind of successor
    let order_calls = {
        let tri2 = tri.clone();
        let quick = tier == "quick";
        let (calls, vs) = std::thread::spawn(move || {
            let order: [usize; 29] = [21, 3, 14, 1, 29, 7, 2, 11, 25, 5, 18, 9, 27, 4, 16, 23, 6, 12, 28, 8, 20, 10, 26, 13, 22, 15, 24, 17, 19];
            let mut out: Vec<Viol> = Vec::new();
            let mut calls = 0u64;
            for (k, &n) in order.iter().enumerate() {
                let other = order[(k + 11) % order.len()];
                let pos = deep_positions(n);
                for oi in 0..6 {
                    for (j, &sp) in pos.iter().take(if quick { 12 } else { 60 }).enumerate() {
                        let (o, name) = ORIENTATIONS[oi];
                        let case = json!({"kind": "position", "s": sp, "n": n, "orientation": name});
                        let c = match centre_of(sp, n, o) {
                            Ok(c) => c,
                            Err(e) => {
                                out.push(viol("C17/panic", e, case));
                                continue;
                            }
                        };
                        // an unrelated walk in between
                        let po = deep_positions(other);
                        let _ = centre_of(po[j % po.len()], other, ORIENTATIONS[(oi + 1 + j) % 6].0);
                        calls += 3;
                        if !(rg::signed_dist_convex(&tri2, c) >= -1e-12) {
                            out.push(viol("C17/centre-in-triangle", format!("centre of position {} at depth {} ({}) lies outside the quintant triangle when depths are visited in a jumping order", sp, n, name), case.clone()));
                        }
                        match locate(c, n, o) {
                            Ok(s2) if s2 == sp => {}
                            other_r => out.push(viol(
                                "C17/locate-centre",
                                format!("locating the centre of position {} at depth {} ({}) right after a walk of depth {} returns {:?}", sp, n, name, other, other_r),
                                json!({"kind": "position_after", "s": sp, "n": n, "orientation": name, "other_n": other, "other_s": po[j % po.len()], "other_orientation": ORIENTATIONS[(oi + 1 + j) % 6].1}),
                            )),
                        }
                        if out.len() > 8 {
                            return (calls, out);
                        }
                    }
                }
            }
            (calls, out)
        })
        .join()
        .unwrap();
        rep.sink.extend(vs);
        calls
    };
    rep.set("jumping_order_pass_calls", json!(order_calls));
    // position-major pass: the main enumeration walks one orientation at a time, so two consecutive requests never
    // share the position. Here, on one fresh thread per depth, every position (all s < 4^n for n <= 6 / 8, the
    // structured positions beyond) is requested in all six orientations back to back, in every cyclic order and
    // its reverse: centre in the triangle and `locate(centre) == s` for each.
    let pm_calls = {
        let nmax = if tier == "quick" { 6 } else { 8 };
        let depths: Vec<usize> = (1..=29).collect();
        let res: Vec<(u64, Vec<Viol>)> = depths
            .par_iter()
            .map(|&n| {
                let tri2 = tri.clone();
                let pos: Vec<u64> = if n <= nmax { (0..(1u64 << (2 * n))).collect() } else { deep_positions(n).into_iter().take(24).collect() };
                std::thread::spawn(move || {
                    let mut calls = 0u64;
                    for &sp in &pos {
                        for start in 0..6usize {
                            for rev in [false, true] {
                                for k in 0..6usize {
                                    let oi = if rev { (start + 6 - k) % 6 } else { (start + k) % 6 };
                                    calls += 1;
                                    let (_, v) = check_position(sp, n, oi, &tri2);
                                    if let Some(mut v) = v.into_iter().next() {
                                        v.what = format!("{} [requested right after the same position in orientation {}]", v.what, ORIENTATIONS[if rev { (oi + 1) % 6 } else { (oi + 5) % 6 }].1);
                                        v.case = json!({"kind": "position_major", "s": sp, "n": n});
                                        return (calls, vec![v]);
                                    }
                                }
                            }
                        }
                    }
                    (calls, vec![])
                })
                .join()
                .unwrap_or((0, vec![]))
            })
            .collect();
        let mut calls = 0u64;
        for (c, v) in res {
            calls += c;
            rep.sink.extend(v);
        }
        calls
    };
    rep.set("position_major_pass_calls", json!(pm_calls));
    // model: conformance, then exploration
    let cn = if tier == "quick" { 9 } else { 10 };
    let (agreed, unbound) = conformance(cn);
    let mut states = 0;
    let mut transitions = 0;
    let mut pairs = 0;
    let bound = unbound.is_none();
    if bound {
        for (inv, flip) in [(false, false), (true, false), (false, true)] {
            let (s, t, p, col) = explore_automaton(inv, flip);
            states += s;
            transitions += t;
            pairs += p;
            if let Some(c) = col {
                rep.sink.push(viol("C17/digit-walk-injective", format!("(invert_j={}, flip_ij={}): {}", inv, flip, c), json!({"kind": "automaton", "invert_j": inv, "flip_ij": flip})));
            }
        }
    } else {
        rep.assume(&format!("MODEL NOT BOUND: the digit-walk model disagrees with s_to_anchor_internal at {}; the all-depth injectivity claim is NOT made in this run, only the verdicts on real outputs", unbound.clone().unwrap()));
    }
    rep.set("states", json!((states as u64).max(1) + evals + deep));
    rep.set("transitions", json!((transitions as u64).max(1) + evals + deep));
    rep.set("traces_validated_against_impl", json!(agreed));
    rep.set("evaluations", json!(evals + deep));
    rep.set("distinct_nontrivial", json!(evals + deep));
    rep.set("rule", json!(format!("all positions s < 4^n for n = 1..{} x 6 orientations ({} positions): pentagon centres pairwise further apart than 0.2 cell pitches (sort + sweep), inside the quintant triangle, and ij_to_s(centre) == s; structured positions for n = {}..29 ({}); digit-walk Mealy machine (model) compared bit for bit with s_to_anchor_internal on all s < 4^n, n <= {}, 3 orientation classes (traces_validated = positions agreed), then its pair automaton explored for two different inputs with equal outputs (all depths)", nmax, evals, nmax + 1, deep, cn)));
    rep.set("exhaustive", json!(true));
    rep.set("exhaustive_scope", json!(format!("all positions at depth <= {} for all 6 orientations; the bound model for every depth", nmax)));
    rep.set("model_bound", json!(bound));
    rep.set("automaton_states", json!(states));
    rep.set("automaton_transitions", json!(transitions));
    rep.set("pair_automaton_states", json!(pairs));
    rep.sample(json!({"s": 27, "n": 3, "orientation": "wu"}));
    rep.sample(json!({"deep_position": deep_positions(20)[17], "n": 20}));
    rep.assume("depths above the exhaustive bound: geometric claims on structured positions only; digit-layer injectivity for all depths via the bound model");
    rep
}

pub fn replay(case: &Value) -> Vec<Viol> {
    if case["kind"] == "position_major" {
        let (sp, n) = (case["s"].as_u64().unwrap_or(0), case["n"].as_u64().unwrap_or(1) as usize);
        let tri = quintant_triangle();
        return std::thread::spawn(move || {
            for start in 0..6usize {
                for rev in [false, true] {
                    for k in 0..6usize {
                        let oi = if rev { (start + 6 - k) % 6 } else { (start + k) % 6 };
                        let (_, v) = check_position(sp, n, oi, &tri);
                        if !v.is_empty() {
                            return v;
                        }
                    }
                }
            }
            vec![]
        })
        .join()
        .unwrap_or_default();
    }
    let tri = quintant_triangle();
    if case["kind"] == "position_after" {
        let name = case["orientation"].as_str().unwrap();
        let oi = ORIENTATIONS.iter().position(|x| x.1 == name).unwrap();
        let oj = ORIENTATIONS.iter().position(|x| x.1 == case["other_orientation"].as_str().unwrap()).unwrap();
        let (sp, n) = (case["s"].as_u64().unwrap(), case["n"].as_u64().unwrap() as usize);
        let (os, on) = (case["other_s"].as_u64().unwrap(), case["other_n"].as_u64().unwrap() as usize);
        let case2 = case.clone();
        return std::thread::spawn(move || {
            let c = match centre_of(sp, n, ORIENTATIONS[oi].0) {
                Ok(c) => c,
                Err(e) => return vec![viol("C17/panic", e, case2)],
            };
            let _ = centre_of(os, on, ORIENTATIONS[oj].0);
            match locate(c, n, ORIENTATIONS[oi].0) {
                Ok(s2) if s2 == sp => vec![],
                other => vec![viol("C17/locate-centre", format!("locating the centre of position {} at depth {} right after a walk of depth {} returns {:?}", sp, n, on, other), case2)],
            }
        })
        .join()
        .unwrap();
    }
    if case["kind"] == "position" {
        let oi = ORIENTATIONS.iter().position(|x| x.1 == case["orientation"].as_str().unwrap()).unwrap();
        return check_position(case["s"].as_u64().unwrap(), case["n"].as_u64().unwrap() as usize, oi, &tri).1;
    }
    vec![]
}
