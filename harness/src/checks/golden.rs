//! C06 — cell ids keep denoting the same place as in the reference release.
//! The frozen table under /verif/golden was generated ONCE by `a5check GOLDEN gen <dir>` built
//! against the reference release (see golden/PROVENANCE.json). The check never regenerates it.
use crate::enumerate as en;
use crate::ev::{viol, Report, Viol};
use crate::geo;
use crate::refcodec as rc;
use crate::refgeom as rg;
use crate::subj;
use rayon::prelude::*;
use serde_json::{json, Value};
use std::collections::BTreeMap;
use std::io::{Read, Write};

const MAGIC_CELLS: &[u8; 8] = b"A5GCELL1";
const MAGIC_LOOK: &[u8; 8] = b"A5GLOOK1";

pub struct CellRec {
    pub id: u64,
    pub centre: (f64, f64),
    pub centre_pinned: bool,
    pub corners: Vec<(f64, f64, bool)>,
}
pub struct LookRec {
    pub lon: f64,
    pub lat: f64,
    pub res: i32,
    pub id: u64,
    pub pinned: bool,
}

fn golden_cells() -> Vec<u64> {
    let mut v = en::all_upto(5);
    // every second pattern of FAM(2, P)
    let roots = rc::all_cells(2);
    let pats = en::patterns();
    for &root in &roots {
        for (_, p) in pats.iter().step_by(2) {
            let mut c = root;
            let mut k = 0usize;
            while rc::resolution(c).unwrap() < 29 {
                let ch = rc::children(c);
                c = ch[(p(k) as usize) % ch.len()];
                k += 1;
                v.push(c);
            }
        }
    }
    v.sort_unstable();
    v.dedup();
    v
}

fn golden_points() -> Vec<(f64, f64)> {
    en::sphere_lonlat(2048, false).into_iter().map(|(a, b, _)| (a, b)).collect()
}

/// margin rule for pinning a lookup answer
fn pinned_margin(id: u64, lon: f64, lat: f64) -> bool {
    match geo::cell_poly(id) {
        Ok((face, poly)) => match subj::forward(rg::ll_to_vec(lon, lat), face) {
            Ok(p) => {
                let d = rg::signed_dist_convex(&poly, p);
                d > (1e-6 * rg::diameter(&poly)).max(1e-11)
            }
            Err(_) => false,
        },
        Err(_) => false,
    }
}

fn cell_records(cells: &[u64]) -> Vec<CellRec> {
    cells
        .par_iter()
        .filter_map(|&c| {
            let (face, poly) = subj::pentagon(c).ok()?;
            let centre = subj::centre(c).ok()?;
            let ring = subj::boundary(c, false, Some(1)).ok()?;
            // self-consistency of the reference outputs: forward(reported point) returns the planar point
            let cen = rg::centroid_mean(&poly);
            let cp = subj::forward(rg::ll_to_vec(centre.0, centre.1), face).map(|p| ((p[0] - cen[0]).powi(2) + (p[1] - cen[1]).powi(2)).sqrt() <= 1e-12).unwrap_or(false);
            let corners = ring
                .iter()
                .map(|&(lo, la)| {
                    let ok = subj::forward(rg::ll_to_vec(lo, la), face)
                        .map(|p| poly.iter().any(|v| ((p[0] - v[0]).powi(2) + (p[1] - v[1]).powi(2)).sqrt() <= 1e-12))
                        .unwrap_or(false);
                    (lo, la, ok)
                })
                .collect();
            Some(CellRec { id: c, centre, centre_pinned: cp, corners })
        })
        .collect()
}

fn write_cells(path: &str, recs: &[CellRec]) -> Result<(), String> {
    let mut f = std::fs::File::create(path).map_err(|e| e.to_string())?;
    let mut buf: Vec<u8> = Vec::new();
    buf.extend_from_slice(MAGIC_CELLS);
    buf.extend_from_slice(&(recs.len() as u64).to_le_bytes());
    for r in recs {
        buf.extend_from_slice(&r.id.to_le_bytes());
        buf.extend_from_slice(&r.centre.0.to_le_bytes());
        buf.extend_from_slice(&r.centre.1.to_le_bytes());
        buf.push(r.centre_pinned as u8);
        buf.push(r.corners.len() as u8);
        for c in &r.corners {
            buf.extend_from_slice(&c.0.to_le_bytes());
            buf.extend_from_slice(&c.1.to_le_bytes());
            buf.push(c.2 as u8);
        }
    }
    f.write_all(&buf).map_err(|e| e.to_string())
}

fn write_looks(path: &str, looks: &[LookRec]) -> Result<(), String> {
    let mut buf: Vec<u8> = Vec::new();
    buf.extend_from_slice(MAGIC_LOOK);
    buf.extend_from_slice(&(looks.len() as u64).to_le_bytes());
    for l in looks {
        buf.extend_from_slice(&l.lon.to_le_bytes());
        buf.extend_from_slice(&l.lat.to_le_bytes());
        buf.push(l.res as u8);
        buf.extend_from_slice(&l.id.to_le_bytes());
        buf.push(l.pinned as u8);
    }
    std::fs::File::create(path).and_then(|mut f| f.write_all(&buf)).map_err(|e| e.to_string())
}

fn look(lon: f64, lat: f64, r: i32) -> Option<LookRec> {
    let id = subj::lookup(lon, lat, r).ok()?;
    Some(LookRec { lon, lat, res: r, id, pinned: rc::resolution(id) == Some(r) && pinned_margin(id, lon, lat) })
}

fn golden_cells2() -> Vec<u64> {
    en::aligned_cells()
}

/// GOLDEN gen2: additional frozen tables (cells2.bin, lookups2.bin), same record formats
pub fn generate2(dir: &str) -> Result<(), String> {
    std::fs::create_dir_all(dir).map_err(|e| e.to_string())?;
    let recs2 = cell_records(&golden_cells2());
    write_cells(&format!("{}/cells2.bin", dir), &recs2)?;
    let mut looks: Vec<LookRec> = Vec::new();
    // (a) the same physical points written with other longitude windings, all resolutions
    let pts = golden_points();
    let wound: Vec<LookRec> = pts
        .par_iter()
        .enumerate()
        .flat_map(|(i, &(lon, lat))| {
            let mut out = Vec::new();
            let ks: &[f64] = match i % 4 {
                0 => &[360.0],
                1 => &[-360.0],
                2 => &[720.0, -720.0],
                _ => &[],
            };
            for k in ks {
                for r in 0..=29 {
                    out.extend(look(lon + k, lat, r));
                }
            }
            out
        })
        .collect();
    looks.extend(wound);
    // (b) the centre the reference reports for a cell (raw longitude, may be below -180), looked up at
    // the cell's resolution
    let (cells1, _) = load_files(&format!("{}/cells.bin", dir), None)?;
    let centre_looks: Vec<LookRec> = cells1
        .par_iter()
        .chain(recs2.par_iter())
        .filter_map(|r| {
            let res = rc::resolution(r.id)?;
            if res < 0 {
                return None;
            }
            look(r.centre.0, r.centre.1, res)
        })
        .collect();
    looks.extend(centre_looks);
    // (c) interior points of the second-generation cells
    let extra: Vec<LookRec> = recs2
        .par_iter()
        .flat_map(|r| {
            let mut out = Vec::new();
            if let Ok((face, poly)) = geo::cell_poly(r.id) {
                let pts = geo::cell_interior_points(&poly, &[0.7]);
                for q in [pts[1], pts[4]] {
                    if let Ok(v) = subj::inverse(q, face) {
                        let (lon, lat) = rg::vec_to_ll(v);
                        out.extend(look(lon, lat, rc::resolution(r.id).unwrap()));
                    }
                }
            }
            out
        })
        .collect();
    looks.extend(extra);
    write_looks(&format!("{}/lookups2.bin", dir), &looks)?;
    let prov = json!({
        "generator": "a5check GOLDEN gen2 (harness/src/checks/golden.rs)",
        "cells2": recs2.len(), "cells2_centre_pinned": recs2.iter().filter(|r| r.centre_pinned).count(),
        "lookups2": looks.len(), "lookups2_pinned": looks.iter().filter(|l| l.pinned).count(),
    });
    std::fs::write(format!("{}/GENERATED2.json", dir), serde_json::to_string_pretty(&prov).unwrap()).map_err(|e| e.to_string())?;
    println!("golden2: {}", prov);
    Ok(())
}

pub fn generate(dir: &str) -> Result<(), String> {
    std::fs::create_dir_all(dir).map_err(|e| e.to_string())?;
    // ---- cells
    let recs = cell_records(&golden_cells());
    write_cells(&format!("{}/cells.bin", dir), &recs)?;
    // ---- lookups: lattice x all resolutions
    let pts = golden_points();
    let mut looks: Vec<LookRec> = pts
        .par_iter()
        .flat_map(|&(lon, lat)| {
            (0..=29)
                .filter_map(|r| {
                    let id = subj::lookup(lon, lat, r).ok()?;
                    Some(LookRec { lon, lat, res: r, id, pinned: rc::resolution(id) == Some(r) && pinned_margin(id, lon, lat) })
                })
                .collect::<Vec<_>>()
        })
        .collect();
    // interior points of the family cells at their own resolution
    let extra: Vec<LookRec> = recs
        .par_iter()
        .flat_map(|r| {
            let mut out = Vec::new();
            if let Ok((face, poly)) = geo::cell_poly(r.id) {
                let pts = geo::cell_interior_points(&poly, &[0.7]);
                for q in [pts[1], pts[4]] {
                    if let Ok(v) = subj::inverse(q, face) {
                        let (lon, lat) = rg::vec_to_ll(v);
                        let res = rc::resolution(r.id).unwrap();
                        if let Ok(id) = subj::lookup(lon, lat, res) {
                            out.push(LookRec { lon, lat, res, id, pinned: rc::resolution(id) == Some(res) && pinned_margin(id, lon, lat) });
                        }
                    }
                }
            }
            out
        })
        .collect();
    looks.extend(extra);
    write_looks(&format!("{}/lookups.bin", dir), &looks)?;
    let pinned_l = looks.iter().filter(|l| l.pinned).count();
    let pinned_c = recs.iter().filter(|r| r.centre_pinned).count();
    let prov = json!({
        "generator": "a5check GOLDEN gen (harness/src/checks/golden.rs)",
        "cells": recs.len(), "cells_centre_pinned": pinned_c,
        "lookups": looks.len(), "lookups_pinned": pinned_l,
        "note": "fill in reference_commit by hand after generation",
    });
    std::fs::write(format!("{}/GENERATED.json", dir), serde_json::to_string_pretty(&prov).unwrap()).map_err(|e| e.to_string())?;
    println!("golden: {} cells ({} centres pinned), {} lookups ({} pinned)", recs.len(), pinned_c, looks.len(), pinned_l);
    Ok(())
}

fn rd_u64(b: &[u8], o: &mut usize) -> u64 {
    let v = u64::from_le_bytes(b[*o..*o + 8].try_into().unwrap());
    *o += 8;
    v
}
fn rd_f64(b: &[u8], o: &mut usize) -> f64 {
    f64::from_bits(rd_u64(b, o))
}

pub fn load(dir: &str) -> Result<(Vec<CellRec>, Vec<LookRec>), String> {
    let (mut c, mut l) = load_files(&format!("{}/cells.bin", dir), Some(&format!("{}/lookups.bin", dir)))?;
    let (c2, l2) = load_files(&format!("{}/cells2.bin", dir), Some(&format!("{}/lookups2.bin", dir)))?;
    c.extend(c2);
    l.extend(l2);
    Ok((c, l))
}

pub fn load_second_generation(dir: &str) -> Result<(Vec<CellRec>, Vec<LookRec>), String> {
    load_files(&format!("{}/cells2.bin", dir), None)
}

fn load_files(cells_path: &str, looks_path: Option<&str>) -> Result<(Vec<CellRec>, Vec<LookRec>), String> {
    let mut b = Vec::new();
    std::fs::File::open(cells_path).and_then(|mut f| f.read_to_end(&mut b)).map_err(|e| format!("{}: {}", cells_path, e))?;
    if &b[..8] != MAGIC_CELLS {
        return Err(format!("bad magic in {}", cells_path));
    }
    let mut o = 8;
    let n = rd_u64(&b, &mut o) as usize;
    let mut cells = Vec::with_capacity(n);
    for _ in 0..n {
        let id = rd_u64(&b, &mut o);
        let lon = rd_f64(&b, &mut o);
        let lat = rd_f64(&b, &mut o);
        let cp = b[o] != 0;
        let nc = b[o + 1] as usize;
        o += 2;
        let mut corners = Vec::with_capacity(nc);
        for _ in 0..nc {
            let lo = rd_f64(&b, &mut o);
            let la = rd_f64(&b, &mut o);
            corners.push((lo, la, b[o] != 0));
            o += 1;
        }
        cells.push(CellRec { id, centre: (lon, lat), centre_pinned: cp, corners });
    }
    let looks_path = match looks_path {
        Some(p) => p,
        None => return Ok((cells, vec![])),
    };
    let mut b = Vec::new();
    std::fs::File::open(looks_path).and_then(|mut f| f.read_to_end(&mut b)).map_err(|e| format!("{}: {}", looks_path, e))?;
    if &b[..8] != MAGIC_LOOK {
        return Err(format!("bad magic in {}", looks_path));
    }
    let mut o = 8;
    let n = rd_u64(&b, &mut o) as usize;
    let mut looks = Vec::with_capacity(n);
    for _ in 0..n {
        let lon = rd_f64(&b, &mut o);
        let lat = rd_f64(&b, &mut o);
        let res = b[o] as i32;
        o += 1;
        let id = rd_u64(&b, &mut o);
        let pinned = b[o] != 0;
        o += 1;
        looks.push(LookRec { lon, lat, res, id, pinned });
    }
    Ok((cells, looks))
}

pub fn check_cell(r: &CellRec) -> Vec<Viol> {
    let mut out = Vec::new();
    let case = json!({"kind": "golden_cell", "id": subj::hex(r.id)});
    let tol = 1e-9 * rg::DEG;
    if r.centre_pinned {
        match subj::centre(r.id) {
            Ok((lon, lat)) => {
                let e = rg::ang(rg::ll_to_vec(lon, lat), rg::ll_to_vec(r.centre.0, r.centre.1));
                if !(e <= tol) {
                    out.push(viol("C06/centre-moved", format!("centre of {} is now ({}, {}), the reference release reported ({}, {}): {:.3e} deg apart", subj::hex(r.id), lon, lat, r.centre.0, r.centre.1, e / rg::DEG), case.clone()));
                }
            }
            Err(e) => out.push(viol("C06/centre-error", e, case.clone())),
        }
    }
    if r.corners.iter().any(|c| c.2) {
        match subj::boundary(r.id, false, Some(1)) {
            Ok(ring) => {
                let now: Vec<_> = ring.iter().map(|&(lo, la)| rg::ll_to_vec(lo, la)).collect();
                if now.len() != r.corners.len() {
                    out.push(viol("C06/corners-moved", format!("{} corners now, {} in the reference release", now.len(), r.corners.len()), case.clone()));
                }
                for (i, c) in r.corners.iter().enumerate() {
                    if !c.2 {
                        continue;
                    }
                    let w = rg::ll_to_vec(c.0, c.1);
                    let d = now.iter().map(|v| rg::ang(*v, w)).fold(f64::INFINITY, f64::min);
                    if !(d <= tol) {
                        out.push(viol("C06/corners-moved", format!("reference corner {} of {} at ({}, {}) has no current corner within 1e-9 deg (nearest {:.3e} deg)", i, subj::hex(r.id), c.0, c.1, d / rg::DEG), case.clone()));
                        break;
                    }
                }
            }
            Err(e) => out.push(viol("C06/boundary-error", e, case)),
        }
    }
    out
}

pub fn check_look(l: &LookRec) -> Vec<Viol> {
    if !l.pinned {
        return vec![];
    }
    let case = json!({"kind": "golden_lookup", "lon": l.lon, "lat": l.lat, "res": l.res});
    match subj::lookup(l.lon, l.lat, l.res) {
        Ok(id) if id == l.id => vec![],
        other => vec![viol("C06/id-changed", format!("lookup ({}, {}) at r={} now returns {:?}; the reference release returned {} and contained the point with margin", l.lon, l.lat, l.res, other.map(subj::hex), subj::hex(l.id)), case)],
    }
}

pub fn run(tier: &str, verif_dir: &str) -> Report {
    let mut rep = Report::new("exploration");
    let dir = format!("{}/golden", verif_dir);
    let (cells, looks) = match load(&dir) {
        Ok(x) => x,
        Err(e) => {
            rep.sink.push(viol("MACHINERY/golden-missing", e, json!({"kind": "machinery"})));
            return rep;
        }
    };
    let stride = 1;
    let _ = tier;
    let cs: Vec<&CellRec> = cells.iter().step_by(stride).collect();
    let vs: Vec<Viol> = cs.par_iter().flat_map(|r| check_cell(r)).collect();
    rep.sink.extend(vs);
    let ls: Vec<&LookRec> = looks.iter().step_by(stride).collect();
    let vs: Vec<Viol> = ls.par_iter().flat_map(|l| check_look(l)).collect();
    rep.sink.extend(vs);
    // the same table once more in an order no ascending sweep produces: one fresh thread walks every
    // 7th pinned lookup by DESCENDING resolution (and a second one by a jumping order), then a slice of
    // the cells finest first; tables grown lazily per resolution must not depend on the order of use
    let mut order_pass = 0u64;
    {
        let pick: Vec<&LookRec> = ls.iter().copied().filter(|l| l.pinned).step_by(7).collect();
        let cpick: Vec<&CellRec> = cs.iter().copied().step_by(11).collect();
        let jump = |r: i32| -> i32 { (r * 11 + 5) % 30 };
        let res: Vec<Vec<Viol>> = std::thread::scope(|sc| {
            let h1 = sc.spawn(|| {
                let mut v: Vec<&LookRec> = pick.clone();
                v.sort_by_key(|l| -l.res);
                let mut out: Vec<Viol> = v.iter().flat_map(|l| check_look(l)).collect();
                let mut c: Vec<&CellRec> = cpick.clone();
                c.sort_by_key(|r| -(rc::resolution(r.id).unwrap_or(0)));
                out.extend(c.iter().flat_map(|r| check_cell(r)));
                out
            });
            let h2 = sc.spawn(|| {
                let mut v: Vec<&LookRec> = pick.clone();
                v.sort_by_key(|l| jump(l.res));
                let mut out: Vec<Viol> = v.iter().flat_map(|l| check_look(l)).collect();
                let mut c: Vec<&CellRec> = cpick.clone();
                c.sort_by_key(|r| jump(rc::resolution(r.id).unwrap_or(0).max(0)));
                out.extend(c.iter().flat_map(|r| check_cell(r)));
                out
            });
            vec![h1.join().unwrap(), h2.join().unwrap()]
        });
        order_pass += 2 * (pick.len() + cpick.len()) as u64;
        for v in res {
            rep.sink.extend(v);
        }
    }
    rep.set("entries_re_evaluated_in_descending_and_jumping_resolution_order", json!(order_pass));
    // coverage matrix: face x quintant x resolution of the stored cells and pinned answers
    let mut combos: BTreeMap<(u64, u64, i32), u64> = BTreeMap::new();
    for r in &cs {
        if let Some(t) = rc::decode(r.id) {
            *combos.entry((t.face, t.quintant, t.res)).or_insert(0) += 1;
        }
    }
    let mut res_pinned = vec![0u64; 30];
    for l in &ls {
        if l.pinned {
            res_pinned[l.res as usize] += 1;
        }
    }
    let want_combos = 12 + 60 * 29;
    let pinned = ls.iter().filter(|l| l.pinned).count() as u64;
    let cpinned = cs.iter().filter(|r| r.centre_pinned).count() as u64;
    rep.set("evaluations", json!(cs.len() as u64 + ls.len() as u64));
    rep.set("distinct_nontrivial", json!(pinned + cpinned));
    rep.set("rule", json!(format!("frozen table generated once from the reference release: {} stored cells (all cells r<=5 + digit-pattern families to r=29) with centre and corner points, {} stored lookups (sphere lattice x resolutions 0..29 + interior points of the stored cells); plus the second-generation tables (word-aligned ids: low 8/12/16/20 curve digits all 0 or all 3, every face x quintant; the lattice points written with longitudes +-360 and +-720; the centre reported for every stored cell, raw longitude, looked up at its resolution); this run evaluates every {} entry, and a slice of them again on single fresh threads in descending and in jumping resolution order; only entries whose reference answer contained the point with margin max(1e-6 cell, 1e-11), or whose reference output was self-consistent within 1e-12, are pinned; distinct_nontrivial = pinned entries compared", cells.len(), looks.len(), if stride == 1 { "single".to_string() } else { format!("{}rd", stride) })));
    rep.set("exhaustive", json!(stride == 1));
    rep.set("face_quintant_resolution_combinations_covered", json!(combos.len()));
    rep.set("face_quintant_resolution_combinations_total", json!(want_combos));
    rep.set("pinned_lookups_per_resolution", json!(res_pinned));
    rep.set("provenance", serde_json::from_str::<Value>(&std::fs::read_to_string(format!("{}/PROVENANCE.json", dir)).unwrap_or("{}".into())).unwrap_or(json!({})));
    rep.sample(json!({"stored_cell": subj::hex(cs[cs.len() / 2].id), "reference_centre": cs[cs.len() / 2].centre}));
    rep.sample(json!({"stored_lookup": {"lon": ls[ls.len() / 2].lon, "lat": ls[ls.len() / 2].lat, "res": ls[ls.len() / 2].res, "reference_id": subj::hex(ls[ls.len() / 2].id), "pinned": ls[ls.len() / 2].pinned}}));
    rep.assume("the table pins the Rust reference release only; the TypeScript/Python ports are not consulted");
    rep.assume("answers of the reference that did not contain the point with margin (polar fallback answers, edge-band points) and reference outputs that were not self-consistent (cells within ~6e-6 rad of a pole) are recorded but not pinned");
    rep
}

pub fn replay(case: &Value, verif_dir: &str) -> Vec<Viol> {
    let (cells, looks) = match load(&format!("{}/golden", verif_dir)) {
        Ok(x) => x,
        Err(_) => return vec![],
    };
    match case["kind"].as_str().unwrap_or("") {
        "golden_cell" => {
            let id = u64::from_str_radix(case["id"].as_str().unwrap(), 16).unwrap();
            cells.iter().filter(|r| r.id == id).flat_map(check_cell).collect()
        }
        "golden_lookup" => {
            let (lon, lat, res) = (case["lon"].as_f64().unwrap(), case["lat"].as_f64().unwrap(), case["res"].as_i64().unwrap() as i32);
            looks.iter().filter(|l| l.lon == lon && l.lat == lat && l.res == res).flat_map(check_look).collect()
        }
        _ => vec![],
    }
}
