//! C15 (projection invertible, faces map onto their pentagons) and C16 (locally area preserving).
use crate::enumerate as en;
use crate::ev::{viol, Report, Viol};
use crate::geo;
use crate::refgeom as rg;
use crate::refgeom::{P2, V3};
use crate::subj;
use rayon::prelude::*;
use serde_json::{json, Value};
use std::sync::atomic::{AtomicU64, Ordering};
use std::sync::Mutex;

pub fn plane_lattice(margin: bool) -> Vec<(P2, &'static str)> {
    plane_lattice_tier(margin, false)
}
pub fn plane_lattice_tier(margin: bool, dense: bool) -> Vec<(P2, &'static str)> {
    let rin = geo::face_inradius();
    let mut afr: Vec<f64> = vec![1e-9, 1e-6, 0.1, 0.3, 0.5, 0.7, 0.9, 1.0 - 1e-6, 1.0 - 1e-9];
    let mut rfr: Vec<f64> = vec![0.0, 1e-12, 1e-9, 1e-6, 1e-5, 1e-4, 1e-3, 0.01, 0.1, 0.3, 0.5, 0.7, 0.9, 0.99, 1.0 - 1e-6, 1.0 - 1e-9, 1.0 - 1e-12, 1.0];
    if dense {
        afr.extend([0.0, 1e-12, 1e-3, 0.01, 0.05, 0.2, 0.4, 0.6, 0.8, 0.95, 0.99, 1.0 - 1e-3, 1.0 - 1e-12]);
        // geometric ladder of radii: every threshold of the small-angle shortcuts lies between two rungs
        let mut r = 1e-11;
        while r < 0.9 {
            rfr.push(r);
            rfr.push(r * 2.2);
            rfr.push(r * 4.7);
            r *= 10.0;
        }
        for k in 1..20 {
            rfr.push(k as f64 / 20.0);
        }
    }
    if margin {
        rfr.extend([1.0 + 1e-9, 1.02, 1.1, 1.25]);
    }
    let mut out = Vec::new();
    for sector in 0..10 {
        for &af in &afr {
            let a = (36.0 * (sector as f64 + af)) * rg::DEG;
            // nearest edge normal direction: multiple of 72 deg
            let k = (a / (72.0 * rg::DEG)).round();
            let beta = a - k * 72.0 * rg::DEG;
            let edge = rin / beta.cos();
            for &rf in &rfr {
                let r = rf * edge;
                let tag = if rf > 1.0 { "margin" } else if rf < 1e-2 { "near-centre" } else if af < 1e-5 || af > 1.0 - 1e-5 { "seam" } else { "interior" };
                out.push(([r * a.cos(), r * a.sin()], tag));
            }
        }
    }
    // exact axis points with either sign of zero (a sign-bit test instead of a comparison, an atan2 branch)
    for r in [1e-9, 1e-6, 1e-3, 0.1, 0.37, 0.6] {
        for (x, y) in [(r, 0.0), (r, -0.0), (-r, 0.0), (-r, -0.0), (0.0, r), (-0.0, r), (0.0, -r), (-0.0, -r)] {
            out.push(([x, y], "seam"));
        }
    }
    for (x, y) in [(0.0, 0.0), (-0.0, 0.0), (0.0, -0.0), (-0.0, -0.0)] {
        out.push(([x, y], "near-centre"));
    }
    out
}

fn vcase(v: V3, face: usize) -> Value {
    json!({"kind": "sphere_point", "v": [v[0], v[1], v[2]], "face": face})
}

/// oracle for one sphere point: nearest and second-nearest face
pub fn check_sphere_point(f: &rg::Frame, pent: &[P2], v: V3, worst: &Mutex<[f64; 3]>) -> Vec<Viol> {
    let mut out = Vec::new();
    let ranked = f.ranked(v);
    let (d1, f1) = ranked[0];
    let (d2, f2) = ranked[1];
    let d3 = ranked[2].0;
    // nearest face
    match subj::forward(v, f1 as u8) {
        Ok(p) => {
            if d2 - d1 > 1e-9 {
                let rad = (p[0] * p[0] + p[1] * p[1]).sqrt();
                let sd = rg::signed_dist_convex(pent, p);
                if rad > geo::face_circumradius() + 1e-12 || sd < -1e-12 {
                    out.push(viol("C15/nearest-inside", format!("projected relative to nearest face {}: planar radius {:.15}, signed distance to the face pentagon {:.3e}", f1, rad, sd), vcase(v, f1)));
                }
            }
            match subj::inverse(p, f1 as u8) {
                Ok(w) => {
                    let e = rg::ang(v, w);
                    {
                        let mut g = worst.lock().unwrap();
                        if e > g[0] {
                            g[0] = e;
                        }
                    }
                    if !(e <= 1e-12) {
                        out.push(viol("C15/roundtrip-nearest", format!("inverse(forward(p)) relative to nearest face {} is off by {:.3e} rad", f1, e), vcase(v, f1)));
                    }
                }
                Err(e) => out.push(viol("C15/inverse-error", e, vcase(v, f1))),
            }
        }
        Err(e) => out.push(viol("C15/forward-error", e, vcase(v, f1))),
    }
    // second-nearest face (the neighbour across the closest edge); skip the outside claim on ties
    if d3 - d2 > 1e-9 {
        match subj::forward(v, f2 as u8) {
            Ok(p) => {
                if d2 - d1 > 1e-9 {
                    let sd = rg::signed_dist_convex(pent, p);
                    if sd > 1e-12 {
                        out.push(viol("C15/second-outside", format!("projected relative to second-nearest face {} lands inside its pentagon by {:.3e}", f2, sd), vcase(v, f2)));
                    }
                }
                match subj::inverse(p, f2 as u8) {
                    Ok(w) => {
                        let e = rg::ang(v, w);
                        {
                            let mut g = worst.lock().unwrap();
                            if e > g[1] {
                                g[1] = e;
                            }
                        }
                        if !(e <= 1e-11) {
                            out.push(viol("C15/roundtrip-second", format!("inverse(forward(p)) relative to second-nearest face {} is off by {:.3e} rad", f2, e), vcase(v, f2)));
                        }
                    }
                    Err(e) => out.push(viol("C15/inverse-error", e, vcase(v, f2))),
                }
            }
            Err(e) => out.push(viol("C15/forward-error", e, vcase(v, f2))),
        }
    }
    out
}

pub fn check_plane_point(q: P2, face: usize, worst: &Mutex<[f64; 3]>) -> Vec<Viol> {
    let case = json!({"kind": "plane_point", "q": [q[0], q[1]], "face": face});
    match subj::inverse(q, face as u8) {
        Ok(v) => match subj::forward(v, face as u8) {
            Ok(q2) => {
                let e = ((q[0] - q2[0]).powi(2) + (q[1] - q2[1]).powi(2)).sqrt();
                {
                    let mut g = worst.lock().unwrap();
                    if e > g[2] {
                        g[2] = e;
                    }
                }
                if !(e <= 1e-12) {
                    vec![viol("C15/roundtrip-plane", format!("forward(inverse(q)) on face {} is off by {:.3e}", face, e), case)]
                } else {
                    vec![]
                }
            }
            Err(e) => vec![viol("C15/forward-error", e, case)],
        },
        Err(e) => vec![viol("C15/inverse-error", e, case)],
    }
}

pub fn sphere_vectors(tier: &str) -> Vec<(V3, &'static str)> {
    let n = if tier == "quick" { 65536 } else { 4194304 };
    let mut pts: Vec<(V3, &'static str)> = rg::fibonacci(n).into_iter().map(|v| (v, "uniform")).collect();
    for p in en::frame_points_ladder(tier != "quick", 2) {
        pts.push((p.v, p.tag));
    }
    for (lon, lat, tag) in en::caps_lonlat() {
        pts.push((rg::ll_to_vec(lon, lat), tag));
    }
    // points of the global frame's coordinate planes with either sign of zero in the vanishing component
    for phi in [1e-9, 1e-3, 0.3, 0.9, 1.5, rg::PI / 2.0, 2.2, 3.0, rg::PI - 1e-6] {
        let (s, c) = (f64::sin(phi), f64::cos(phi));
        for v in [[s, 0.0, c], [s, -0.0, c], [-s, 0.0, c], [-s, -0.0, c], [0.0, s, c], [-0.0, s, c], [0.0, -s, c], [-0.0, -s, c]] {
            pts.push((v, "frame-plane"));
        }
    }
    for v in [[0.0, 0.0, 1.0], [-0.0, 0.0, 1.0], [0.0, -0.0, 1.0], [-0.0, -0.0, 1.0], [0.0, 0.0, -1.0], [-0.0, -0.0, -1.0], [1.0, 0.0, 0.0], [1.0, -0.0, -0.0], [1.0, 0.0, -0.0]] {
        pts.push((v, "frame-plane"));
    }
    // rings around both poles at small colatitudes (shortcut thresholds of the spherical conversions)
    for rho in [1e-15, 1e-12, 1e-10, 1e-9, 1.5e-8, 1e-7, 1e-6, 1e-5, 1e-4, 1e-3, 1e-2] {
        for k in 0..12 {
            let t = k as f64 * 30.0 * rg::DEG + 0.05;
            pts.push((rg::from_theta_phi(t, rho), "pole-ring"));
            pts.push((rg::from_theta_phi(t, rg::PI - rho), "pole-ring"));
        }
    }
    pts
}


/// Wedge histories. One projection object serves many points in a row; what it did for the previous point
/// must not leak into the next one. For every face G and every 36-degree wedge of it: an alphabet of six
/// plane points (two inside the pentagon, two beyond the edge of G in the same wedge, one inside and one
/// beyond in the next wedge), each as forward (of its sphere point) and as inverse: 12 ops; all ordered
/// pairs (a, b) followed by a again, on one fresh instance per wedge. Oracle per call: forward returns the
/// plane point within 1e-11, inverse returns the sphere point within 1e-11 rad, where plane point and sphere
/// point belong together by the cold round trip (a fresh instance per point) that `check_plane_point`
/// judges separately.
fn wedge_point(sector: usize, frac: f64, ang_off: f64) -> P2 {
    let a = (36.0 * sector as f64 + ang_off) * rg::DEG;
    let k = (a / (72.0 * rg::DEG)).round();
    let beta = a - k * 72.0 * rg::DEG;
    let r = frac * geo::face_inradius() / beta.cos();
    [r * a.cos(), r * a.sin()]
}
pub fn wedge_history(face: usize, sector: usize, only: Option<(usize, usize)>) -> (u64, Vec<Viol>) {
    use a5::coordinate_systems::Face;
    use a5::projections::dodecahedron::DodecahedronProjection;
    let nxt = (sector + 1) % 10;
    let qs: [P2; 6] = [wedge_point(sector, 0.4, 13.0), wedge_point(sector, 0.97, 22.0), wedge_point(sector, 1.03, 22.0), wedge_point(sector, 1.3, 9.0), wedge_point(nxt, 0.9, 5.0), wedge_point(nxt, 1.1, 5.0)];
    // sphere partners by the cold inverse (a fresh instance per point)
    let mut vs: Vec<V3> = Vec::new();
    for q in qs.iter() {
        let r = subj::guard(|| {
            let mut inst = DodecahedronProjection::new()?;
            inst.inverse(Face::new(q[0], q[1]), face as u8).map(subj::sph_to_vec)
        });
        match r {
            Ok(v) => vs.push(v),
            Err(e) => return (0, vec![viol("C15/inverse-error", e, json!({"kind": "plane_point", "q": [q[0], q[1]], "face": face}))]),
        }
    }
    let mut inst = match subj::guard(DodecahedronProjection::new) {
        Ok(i) => i,
        Err(e) => return (0, vec![viol("C15/forward-error", e, json!({"kind": "wedge_history", "face": face, "sector": sector}))]),
    };
    let name = |op: usize| format!("{}(point {}: {} the pentagon, wedge {})", if op % 2 == 0 { "forward" } else { "inverse" }, op / 2, if [0, 1, 4].contains(&(op / 2)) { "inside" } else { "beyond the edge of" }, if op / 2 >= 4 { nxt } else { sector });
    let mut run = |op: usize| -> Result<f64, String> {
        let (q, v) = (qs[op / 2], vs[op / 2]);
        if op % 2 == 0 {
            subj::guard(|| inst.forward(subj::sph(v), face as u8).map(|f| ((f.x() - q[0]).powi(2) + (f.y() - q[1]).powi(2)).sqrt()))
        } else {
            subj::guard(|| inst.inverse(Face::new(q[0], q[1]), face as u8).map(|s| rg::ang(subj::sph_to_vec(s), v)))
        }
    };
    let mut n = 0u64;
    let pairs: Vec<(usize, usize)> = match only {
        Some(p) => vec![p],
        None => (0..12).flat_map(|a| (0..12).map(move |b| (a, b))).collect(),
    };
    for (a, b) in pairs {
        for (i, op) in [a, b, a].into_iter().enumerate() {
            n += 1;
            let bad = match run(op) {
                Ok(e) if e <= 1e-11 => None,
                Ok(e) => Some(format!("off by {:.3e}", e)),
                Err(e) => Some(e),
            };
            if let Some(why) = bad {
                return (n, vec![viol(
                    "C15/roundtrip-after-other-point",
                    format!("face {}: call #{} of [{}, {}, {}] on one projection object is {} (plane point and sphere point agree within 1e-12 when each is converted by a fresh object)", face, i + 1, name(a), name(b), name(a), why),
                    json!({"kind": "wedge_history", "face": face, "sector": sector, "a": a, "b": b}),
                )]);
            }
        }
    }
    (n, vec![])
}

pub fn run_c15(tier: &str) -> Report {
    let mut rep = Report::new("exploration");
    // a legitimate, unrelated use of the public projection with a caller-supplied triangle comes first
    // (on another thread): it must leave nothing behind that the face projection reads
    if let Err(e) = foreign_triangle_probe() {
        rep.sink.push(viol("C15/forward-error", e, json!({"kind": "foreign"})));
    }
    let f = rg::frame();
    let pent = geo::ref_face_pentagon();
    let pts = sphere_vectors(tier);
    let worst = Mutex::new([0.0f64; 3]);
    let vs: Vec<Viol> = pts.par_iter().flat_map(|(v, _)| check_sphere_point(&f, &pent, *v, &worst)).collect();
    rep.sink.extend(vs);
    let plane = plane_lattice_tier(false, tier != "quick");
    let mut plane_evals = 0u64;
    for face in 0..12usize {
        let vs: Vec<Viol> = plane.par_iter().flat_map(|(q, _)| check_plane_point(*q, face, &worst)).collect();
        plane_evals += plane.len() as u64;
        rep.sink.extend(vs);
    }
    // wedge histories (see `wedge_history`): every face x every wedge, all ordered pairs of 12 ops with echo
    let wedge_calls;
    {
        let jobs: Vec<(usize, usize)> = (0..12).flat_map(|f| (0..10).map(move |s| (f, s))).collect();
        let res: Vec<(u64, Vec<Viol>)> = jobs.par_iter().map(|&(f, s)| wedge_history(f, s, None)).collect();
        wedge_calls = res.iter().map(|r| r.0).sum::<u64>();
        for (_, v) in res {
            rep.sink.extend(v);
        }
        rep.set("wedge_histories", json!({"faces": 12, "wedges_per_face": 10, "ops_per_wedge": 12, "histories_per_wedge": 144, "calls": wedge_calls}));
    }
    // forward second-difference sweeps (see run_forward_sweep)
    let hs = if tier == "quick" { 1e-7 } else { 2e-8 };
    let mut fsteps = 0u64;
    let mut fworst = 0.0f64;
    let sws = sweeps(tier);
    for sw in sws.iter().filter(|s| !s.arc) {
        let (n, wv, v) = run_forward_sweep(sw, hs, None);
        fsteps += n;
        fworst = fworst.max(wv);
        rep.sink.extend(v);
    }
    rep.set("forward_sweeps", json!({"curves": sws.iter().filter(|s| !s.arc).count(), "step_rad": hs, "steps": fsteps, "worst_second_difference": fworst, "tolerance": SWEEP_TOL}));
    let hard = pts.iter().filter(|(_, t)| *t != "uniform").count() as u64 + plane.iter().filter(|(_, t)| *t != "interior").count() as u64 * 12;
    let w = worst.lock().unwrap();
    rep.set("evaluations", json!(2 * pts.len() as u64 + plane_evals + fsteps + wedge_calls));
    rep.set("distinct_nontrivial", json!(hard));
    rep.set("rule", json!("sphere lattice (Fibonacci + 62 frame vertices with offsets 1e-15..1e-3 + 30 face edges + 120 sector seams + polar caps + pole rings) projected relative to the nearest and second-nearest face of an independent regular-dodecahedron frame; planar polar lattice (10 sectors x 9 angles x 18 radii) on each of the 12 faces; plus forward second-difference sweeps (great-circle arcs inside single triangles in equal steps, consecutive projected step lengths equal within 1e-12, key forward_sweeps); distinct_nontrivial = points aligned with a case split of the code (frame vertex/edge/seam, pole ring, near-centre, seam rays)"));
    rep.set("exhaustive", json!(true));
    rep.set("exhaustive_scope", json!("every point of the stated finite lattices; the sphere is a continuum and is NOT covered between lattice points"));
    rep.set("worst_roundtrip_nearest_rad", json!(w[0]));
    rep.set("worst_roundtrip_second_rad", json!(w[1]));
    rep.set("worst_roundtrip_plane", json!(w[2]));
    rep.sample(json!({"sphere_point": pts[pts.len() / 3].0, "tag": pts[pts.len() / 3].1}));
    rep.sample(json!({"plane_point": plane[17].0, "tag": plane[17].1}));
    rep.assume("verdict holds on the lattice only; a defect confined to a region smaller than the lattice pitch and not aligned with a case split can be missed");
    rep.assume("reference frame: regular dodecahedron, face 0 on the north pole, documented numbering and 93 degree offset; face pentagon = gnomonic image (inradius tan(atan(2)/2))");
    rep
}

// ---------------------------------------------------------------------------------------- C16

/// spherical area / planar area for a subdivided probe triangle around q on `face`
fn probe_ratio(q: P2, face: usize, radius: f64, rot: f64, splits: usize) -> Result<f64, String> {
    let corners: Vec<P2> = (0..3)
        .map(|k| {
            let a = rot + k as f64 * 120.0 * rg::DEG;
            [q[0] + radius * a.cos(), q[1] + radius * a.sin()]
        })
        .collect();
    let mut ring: Vec<P2> = Vec::new();
    for k in 0..3 {
        let a = corners[k];
        let b = corners[(k + 1) % 3];
        for j in 0..splits {
            let t = j as f64 / splits as f64;
            ring.push([a[0] + t * (b[0] - a[0]), a[1] + t * (b[1] - a[1])]);
        }
    }
    let planar = rg::shoelace(&ring);
    let mut sph = Vec::with_capacity(ring.len());
    for p in &ring {
        sph.push(subj::inverse(*p, face as u8)?);
    }
    // signed: a map that folds a region back (orientation reversed) keeps the magnitude
    Ok(rg::poly_area(&sph) / planar)
}

/// does the probe disc stay within one sector and on one side of the face edge?
fn probe_clear(q: P2, radius: f64) -> bool {
    probe_clear_w(q, radius, false)
}
/// wedge = true: the point may lie beyond the reflected triangle (the wedge next to a face vertex that
/// the sector of the face covers by extrapolation and that cell corners reach into)
fn probe_clear_w(q: P2, radius: f64, wedge: bool) -> bool {
    let rin = geo::face_inradius();
    let rho = (q[0] * q[0] + q[1] * q[1]).sqrt();
    if rho <= radius * 1.5 {
        return false; // would straddle the centre where all seams meet
    }
    let a = q[1].atan2(q[0]);
    // distance to the nearest seam line (multiples of 36 deg)
    let k = (a / (36.0 * rg::DEG)).round();
    let seam_dist = (rho * (a - k * 36.0 * rg::DEG).sin()).abs();
    if seam_dist <= radius * 1.5 {
        return false;
    }
    // distance to the nearest face edge line
    let k2 = (a / (72.0 * rg::DEG)).round();
    let along = rho * (a - k2 * 72.0 * rg::DEG).cos();
    let across = (rho * (a - k2 * 72.0 * rg::DEG).sin()).abs();
    if along > rin {
        // beyond the edge: stay inside the reflected triangle (mirror image of the sector)
        if !wedge && across + 1.5 * radius > (2.0 * rin - along) * (36.0 * rg::DEG).tan() {
            return false;
        }
    }
    (along - rin).abs() > radius * 1.5
}


// ------------------------------------------------------------------ C16: second-difference sweeps

/// One smooth curve in the face plane (inside ONE of the ten triangles of the face, or inside the
/// reflected margin beyond one edge), walked in n equal steps of length h; every point is unprojected and
/// the chord lengths d_i between consecutive images are compared: |d_(i+1) - d_i| must stay below `tol`.
/// On a smooth map the difference is h^2 |f''| (1e-15 for h = 4e-8) plus rounding (3e-16); a jump of the
/// map by delta, or a band of width delta that is collapsed or stretched, shows as a difference of delta.
/// A region of diameter L straddling such a defect has a relative area error of about delta / L. Positions
/// are only defined to 1e-12 rad (C15), so the smallest regions for which the 1e-4 bound can be meant are
/// about 1e-8 across; the tolerance is therefore delta <= 1e-12. (The unchanged tree has one such locus: a
/// jump of 1.03e-13 rad on the circle of planar radius 2.33e-3 around every face centre, where safe_acos
/// switches to its series; it is within the tolerance and is reported as worst_second_difference.)
pub struct Sweep {
    pub face: usize,
    pub from: P2,
    pub to: P2,
    pub arc: bool, // false: straight segment from..to; true: circular arc around the origin from the polar point `from` = (rho, a0) to (rho, a1 = to[1])
}
impl Sweep {
    fn point(&self, t: f64) -> P2 {
        if self.arc {
            let a = self.from[1] + t * (self.to[1] - self.from[1]);
            [self.from[0] * a.cos(), self.from[0] * a.sin()]
        } else {
            [self.from[0] + t * (self.to[0] - self.from[0]), self.from[1] + t * (self.to[1] - self.from[1])]
        }
    }
    fn length(&self) -> f64 {
        if self.arc {
            (self.from[0] * (self.to[1] - self.from[1])).abs()
        } else {
            ((self.to[0] - self.from[0]).powi(2) + (self.to[1] - self.from[1]).powi(2)).sqrt()
        }
    }
    pub fn json(&self) -> Value {
        json!({"kind": "sweep", "face": self.face, "from": [self.from[0], self.from[1]], "to": [self.to[0], self.to[1]], "arc": self.arc})
    }
}

pub const SWEEP_TOL: f64 = 1e-12;

/// returns (steps, worst |d_(i+1) - d_i|, violations)
pub fn run_sweep(sw: &Sweep, h: f64, window: Option<(f64, f64)>) -> (u64, f64, Vec<Viol>) {
    let n = (sw.length() / h).ceil().max(4.0) as u64;
    let (t0, t1) = window.unwrap_or((0.0, 1.0));
    let i0 = (t0 * n as f64).floor() as u64;
    let i1 = ((t1 * n as f64).ceil() as u64).min(n);
    let chunk = 1u64 << 16;
    let chunks: Vec<u64> = (i0..i1).step_by(chunk as usize).collect();
    let res: Vec<(f64, Option<Viol>)> = chunks
        .par_iter()
        .map(|&c0| {
            let c1 = (c0 + chunk).min(i1);
            let mut worst = 0.0f64;
            // two samples before the chunk so that differences across chunk borders are covered
            let start = c0.saturating_sub(2).max(i0);
            let mut prev: Option<V3> = None;
            let mut prev_d: Option<f64> = None;
            for i in start..=c1 {
                let t = i as f64 / n as f64;
                let q = sw.point(t);
                let v = match subj::inverse(q, sw.face as u8) {
                    Ok(v) => v,
                    Err(e) => {
                        let mut case = sw.json();
                        case["t"] = json!(t);
                        case["h"] = json!(h);
                        return (worst, Some(viol("C16/inverse-error", e, case)));
                    }
                };
                if let Some(p) = prev {
                    let d = rg::norm(rg::sub(v, p));
                    if let Some(pd) = prev_d {
                        let dd = (d - pd).abs();
                        worst = worst.max(dd);
                        if !(dd <= SWEEP_TOL) {
                            let mut case = sw.json();
                            case["t"] = json!(t);
                            case["h"] = json!(h);
                            return (
                                worst,
                                Some(viol(
                                    "C16/step-anomaly",
                                    format!("walking the face plane in steps of {:.1e}, the unprojected step length changes from {:.6e} to {:.6e} at planar point ({}, {}) of face {}: the map jumps, or collapses / stretches a band, by {:.3e} (a region of that size around it is off by 100 % in area)", h, pd, d, q[0], q[1], sw.face, dd),
                                    case,
                                )),
                            );
                        }
                    }
                    prev_d = Some(d);
                }
                prev = Some(v);
            }
            (worst, None)
        })
        .collect();
    let mut worst = 0.0f64;
    let mut out = Vec::new();
    for (w, v) in res {
        worst = worst.max(w);
        if out.is_empty() {
            out.extend(v);
        }
    }
    (i1 - i0, worst, out)
}


/// forward counterpart of `run_sweep` (C15): the great-circle arc between the images of the two ends of a
/// planar curve of the catalogue (both inside one triangle of the face) is walked in equal angular steps
/// and projected; consecutive planar chord lengths must agree within SWEEP_TOL. A jump of the forward map,
/// e.g. where a series or a branch of an inverse trigonometric function takes over, shows as its size.
pub fn run_forward_sweep(sw: &Sweep, h: f64, window: Option<(f64, f64)>) -> (u64, f64, Vec<Viol>) {
    let (a, b) = match (subj::inverse(sw.point(0.0), sw.face as u8), subj::inverse(sw.point(1.0), sw.face as u8)) {
        (Ok(a), Ok(b)) => (a, b),
        _ => return (0, 0.0, vec![]),
    };
    let omega = rg::ang(a, b);
    if !(omega > 1e-6) {
        return (0, 0.0, vec![]);
    }
    // orthonormal pair in the plane of the arc
    let e1 = a;
    let e2 = rg::unit(rg::sub(b, rg::scale(a, rg::dot(a, b))));
    let n = (omega / h).ceil().max(4.0) as u64;
    let (t0, t1) = window.unwrap_or((0.0, 1.0));
    let i0 = (t0 * n as f64).floor() as u64;
    let i1 = ((t1 * n as f64).ceil() as u64).min(n);
    let chunk = 1u64 << 16;
    let chunks: Vec<u64> = (i0..i1).step_by(chunk as usize).collect();
    let res: Vec<(f64, Option<Viol>)> = chunks
        .par_iter()
        .map(|&c0| {
            let c1 = (c0 + chunk).min(i1);
            let mut worst = 0.0f64;
            let start = c0.saturating_sub(2).max(i0);
            let mut prev: Option<P2> = None;
            let mut prev_d: Option<f64> = None;
            for i in start..=c1 {
                let t = i as f64 / n as f64;
                let w = t * omega;
                let v = rg::unit(rg::add(rg::scale(e1, w.cos()), rg::scale(e2, w.sin())));
                let q = match subj::forward(v, sw.face as u8) {
                    Ok(q) => q,
                    Err(e) => {
                        let mut case = sw.json();
                        case["kind"] = json!("forward_sweep");
                        case["t"] = json!(t);
                        case["h"] = json!(h);
                        return (worst, Some(viol("C15/forward-error", e, case)));
                    }
                };
                if let Some(p) = prev {
                    let d = ((q[0] - p[0]).powi(2) + (q[1] - p[1]).powi(2)).sqrt();
                    if let Some(pd) = prev_d {
                        let dd = (d - pd).abs();
                        worst = worst.max(dd);
                        if !(dd <= SWEEP_TOL) {
                            let mut case = sw.json();
                            case["kind"] = json!("forward_sweep");
                            case["t"] = json!(t);
                            case["h"] = json!(h);
                            return (
                                worst,
                                Some(viol(
                                    "C15/forward-discontinuity",
                                    format!("walking a great-circle arc inside one triangle of face {} in steps of {:.1e} rad, the projected step length changes from {:.6e} to {:.6e} at planar point ({}, {}): the forward projection jumps by {:.3e}, so points on either side cannot both be returned within 1e-12 by one continuous inverse", sw.face, h, pd, d, q[0], q[1], dd),
                                    case,
                                )),
                            );
                        }
                    }
                    prev_d = Some(d);
                }
                prev = Some(q);
            }
            (worst, None)
        })
        .collect();
    let mut worst = 0.0f64;
    let mut out = Vec::new();
    for (w, v) in res {
        worst = worst.max(w);
        if out.is_empty() {
            out.extend(v);
        }
    }
    (i1 - i0, worst, out)
}

/// the sweep catalogue: radial rays and arcs inside single triangles, and rays in the reflected margin
pub fn sweeps(tier: &str) -> Vec<Sweep> {
    let rin = geo::face_inradius();
    let mut v = Vec::new();
    let faces: Vec<usize> = if tier == "quick" { vec![3] } else { vec![0, 3, 7, 10] };
    for &face in &faces {
        for sector in 0..10 {
            let angs: &[f64] = if tier == "quick" { &[13.0] } else { &[4.0, 13.0, 22.0, 31.0] };
            for &da in angs {
                let a = (36.0 * sector as f64 + da) * rg::DEG;
                // distance to the face edge along this direction
                let k2 = (a / (72.0 * rg::DEG)).round();
                let rho_edge = rin / (a - k2 * 72.0 * rg::DEG).cos();
                let dir = [a.cos(), a.sin()];
                v.push(Sweep { face, from: [2e-3 * dir[0], 2e-3 * dir[1]], to: [(rho_edge - 1e-3) * dir[0], (rho_edge - 1e-3) * dir[1]], arc: false });
                // margin beyond the edge (reflected triangle): a short stretch
                if da > 10.0 && da < 26.0 || tier != "quick" {
                    let lim = rho_edge * 1.04;
                    v.push(Sweep { face, from: [(rho_edge + 1e-3) * dir[0], (rho_edge + 1e-3) * dir[1]], to: [lim * dir[0], lim * dir[1]], arc: false });
                }
            }
            // arcs across the triangle at several radii
            let rhos: &[f64] = if tier == "quick" { &[0.31] } else { &[0.05, 0.17, 0.31, 0.44, 0.52] };
            for &rho in rhos {
                let a0 = (36.0 * sector as f64 + 0.7) * rg::DEG;
                let a1 = (36.0 * sector as f64 + 35.3) * rg::DEG;
                // stay inside the face: clip the arc where it would cross the edge
                let k2 = (a0 / (72.0 * rg::DEG)).round();
                let worst_along = rho * ((a0 - k2 * 72.0 * rg::DEG).cos()).max((a1 - k2 * 72.0 * rg::DEG).cos());
                if worst_along < rin - 1e-3 {
                    v.push(Sweep { face, from: [rho, a0], to: [rho, a1], arc: true });
                }
            }
        }
    }
    v
}

/// The public IVEA projection with a caller-supplied triangle (one octant of the sphere mapped from a
/// right triangle): signed area ratios of small probes, expected pi (octant area pi/2 over planar area 1/2).
/// Run on its own thread, before and after the face work: what one use of the projection leaves behind
/// (process-wide or per thread) must not change another.
fn foreign_triangle_probe() -> Result<Vec<f64>, String> {
    use a5::coordinate_systems::{Cartesian, Face, FaceTriangle, SphericalTriangle};
    use a5::projections::polyhedral::PolyhedralProjection;
    std::thread::spawn(|| {
        subj::guard(|| {
            let st = || SphericalTriangle::new(Cartesian::new(0.0, 0.0, 1.0), Cartesian::new(1.0, 0.0, 0.0), Cartesian::new(0.0, 1.0, 0.0));
            let ft = || FaceTriangle::new(Face::new(0.0, 0.0), Face::new(1.0, 0.0), Face::new(0.0, 1.0));
            let proj = PolyhedralProjection::new();
            let mut out = Vec::new();
            for (x, y) in [(0.25, 0.25), (0.6, 0.1), (0.1, 0.7)] {
                let rad = 1e-4;
                let mut ring2: Vec<P2> = Vec::new();
                for k in 0..24 {
                    let a = k as f64 * rg::PI / 12.0;
                    ring2.push([x + rad * a.cos(), y + rad * a.sin()]);
                }
                let sph: Vec<V3> = ring2
                    .iter()
                    .map(|p| {
                        let c = proj.inverse(Face::new(p[0], p[1]), ft(), st());
                        rg::unit([c.x(), c.y(), c.z()])
                    })
                    .collect();
                out.push(rg::poly_area(&sph) / rg::shoelace(&ring2));
            }
            Ok(out)
        })
    })
    .join()
    .map_err(|_| "foreign-triangle thread died".to_string())?
}

fn check_foreign(rep: &mut Report, when: &str, baseline: Option<&Vec<f64>>) -> Option<Vec<f64>> {
    match foreign_triangle_probe() {
        Ok(r) => {
            for (i, x) in r.iter().enumerate() {
                let bad_abs = !((x.abs() / rg::PI - 1.0).abs() <= 1e-4);
                let bad_rel = baseline.map(|b| b[i].to_bits() != x.to_bits()).unwrap_or(false);
                if bad_abs || bad_rel {
                    rep.sink.push(viol(
                        "C16/foreign-triangle",
                        format!("the public projection with a caller-supplied octant triangle gives area ratio {:.9} ({}); expected magnitude pi{}", x, when, baseline.map(|b| format!(", and {:.17e} before the face work", b[i])).unwrap_or_default()),
                        json!({"kind": "foreign", "when": when}),
                    ));
                    break;
                }
            }
            Some(r)
        }
        Err(e) => {
            rep.sink.push(viol("C16/inverse-error", e, json!({"kind": "foreign", "when": when})));
            None
        }
    }
}

pub fn run_c16(tier: &str) -> Report {
    let mut rep = Report::new("exploration");
    // a legitimate, unrelated use of the public projection first (another, finished thread)
    let foreign_before = check_foreign(&mut rep, "first projection call of the process", None);
    let expected = geo::area_scale();
    let radii: &[f64] = if tier == "quick" { &[1e-3, 1e-6, 1e-9] } else { &[1e-3, 1e-4, 1e-5, 1e-6, 1e-7, 1e-8, 1e-9, 3e-10] };
    let rots: &[f64] = if tier == "quick" { &[0.3, 1.1] } else { &[0.3, 1.1, 2.0, 2.9] };
    let splits = 16;
    // base lattice + points at 2 probe radii on either side of every seam and of the face edge
    let mut base: Vec<(P2, &'static str)> = plane_lattice_tier(true, tier != "quick");
    let rin = geo::face_inradius();
    for &rad in radii {
        for sector in 0..10 {
            let a = 36.0 * sector as f64 * rg::DEG;
            for rho in [0.05, 0.2, 0.45, 0.6, 0.7, 0.85] {
                for side in [-1.0, 1.0] {
                    let off = side * 2.0 * rad;
                    base.push(([rho * a.cos() - off * a.sin(), rho * a.sin() + off * a.cos()], "seam-adjacent"));
                }
            }
        }
        for k in 0..5 {
            let a = 72.0 * k as f64 * rg::DEG;
            for t in [-0.4, -0.2, -0.01, 0.01, 0.2, 0.4] {
                for side in [-1.0, 1.0] {
                    let x = rin + side * 2.0 * rad;
                    base.push(([x * a.cos() - t * a.sin(), x * a.sin() + t * a.cos()], "edge-adjacent"));
                }
            }
        }
    }
    // the wedges next to the 5 face vertices, beyond the edge and beyond the reflected triangle, on both
    // sides of the vertex ray (probe radius = depth / 1000, handled below)
    let mut wedge: Vec<(P2, f64)> = Vec::new();
    for qv in 0..5 {
        let g = 72.0 * qv as f64 * rg::DEG;
        let (cx, cy) = (rin, rin * (36.0 * rg::DEG).tan());
        for depth in [1e-3, 1e-2, 5e-2] {
            for side in [1.0, -1.0] {
                let (lx, ly) = (cx + depth, side * (cy - 0.2 * depth));
                wedge.push(([lx * g.cos() - ly * g.sin(), lx * g.sin() + ly * g.cos()], depth * 1e-3));
            }
        }
    }
    // probes right next to the face centre (where all ten triangles meet) for the small radii
    for &rad in radii {
        if rad <= 1e-6 {
            for k in 0..10 {
                let a = (36.0 * k as f64 + 18.0) * rg::DEG;
                for m in [2.0, 5.0, 40.0] {
                    base.push(([m * rad * a.cos(), m * rad * a.sin()], "near-centre"));
                }
            }
        }
    }
    let evals = AtomicU64::new(0);
    let skipped = AtomicU64::new(0);
    let worst = Mutex::new(0.0f64);
    let worst_at = Mutex::new(json!(null));
    let hard = AtomicU64::new(0);
    for face in 0..12usize {
        // orientation of the map on this face, from one interior probe: every other probe must agree
        let orient = match probe_ratio([0.3, 0.1], face, 1e-5, 0.3, splits) {
            Ok(r) if r.is_finite() && r != 0.0 => r.signum(),
            _ => 1.0,
        };
        // vertex wedges
        for (q, rad) in &wedge {
            for &rot in rots {
                if !probe_clear_w(*q, *rad, true) {
                    continue;
                }
                evals.fetch_add(1, Ordering::Relaxed);
                hard.fetch_add(1, Ordering::Relaxed);
                let case = json!({"kind": "probe", "q": [q[0], q[1]], "face": face, "radius": rad, "rot": rot, "orient": orient});
                match probe_ratio(*q, face, *rad, rot, splits) {
                    Ok(ratio) => {
                        let rel = (orient * ratio / expected - 1.0).abs();
                        if !(rel <= 1e-4) {
                            rep.sink.push(viol("C16/area-ratio", format!("probe (vertex wedge beyond the edge) signed area ratio {:.9} vs {:.9} (orientation of the face {:+}): relative error {:.3e}", ratio, expected, orient, rel), case));
                        }
                    }
                    Err(e) => rep.sink.push(viol("C16/inverse-error", e, case)),
                }
            }
        }
        let vs: Vec<Viol> = base
            .par_iter()
            .flat_map(|(q, tag)| {
                let mut out = Vec::new();
                for &rad in radii {
                    if !probe_clear(*q, rad) {
                        skipped.fetch_add(1, Ordering::Relaxed);
                        continue;
                    }
                    for &rot in rots {
                        evals.fetch_add(1, Ordering::Relaxed);
                        if *tag != "interior" {
                            hard.fetch_add(1, Ordering::Relaxed);
                        }
                        let case = json!({"kind": "probe", "q": [q[0], q[1]], "face": face, "radius": rad, "rot": rot, "orient": orient});
                        let rho = (q[0] * q[0] + q[1] * q[1]).sqrt();
                        let sp = if rho < 100.0 * rad { 4 * splits } else { splits };
                        match probe_ratio(*q, face, rad, rot, sp) {
                            Ok(ratio) => {
                                let rel = (orient * ratio / expected - 1.0).abs();
                                {
                                    let mut g = worst.lock().unwrap();
                                    if rel > *g {
                                        *g = rel;
                                        *worst_at.lock().unwrap() = json!({"case": case.clone(), "tag": tag});
                                    }
                                }
                                if !(rel <= 1e-4) {
                                    out.push(viol("C16/area-ratio", format!("probe ({}) area ratio {:.9} vs 4pi/(12 A_face) = {:.9}: relative error {:.3e}", tag, ratio, expected, rel), case));
                                }
                            }
                            Err(e) => out.push(viol("C16/inverse-error", e, case)),
                        }
                    }
                }
                out
            })
            .collect();
        rep.sink.extend(vs);
    }
    // ... and the same use again after all the face work: bit-identical answers
    check_foreign(&mut rep, "after the face work", foreign_before.as_ref());
    // second-difference sweeps
    let h = if tier == "quick" { 1e-7 } else { 2e-8 };
    let sws = sweeps(tier);
    let mut sweep_steps = 0u64;
    let mut sweep_worst = 0.0f64;
    for sw in &sws {
        let (n, w, v) = run_sweep(sw, h, None);
        sweep_steps += n;
        sweep_worst = sweep_worst.max(w);
        rep.sink.extend(v);
    }
    // thorough tier: a few curves at a step of 6e-10, so that any band wider than 1.2e-9 that the map
    // collapses or displaces while leaving its surroundings untouched contains at least two samples
    let mut fine = json!(null);
    if tier != "quick" {
        let rin = geo::face_inradius();
        let hf = 6e-10;
        let mut fsteps = 0u64;
        let mut fworst = 0.0f64;
        let mut curves = Vec::new();
        for (face, deg) in [(3usize, 13.0f64), (0, 85.0), (10, 200.0)] {
            let a = deg * rg::DEG;
            let k2 = (a / (72.0 * rg::DEG)).round();
            let rho_edge = rin / (a - k2 * 72.0 * rg::DEG).cos();
            curves.push(Sweep { face, from: [2e-3 * a.cos(), 2e-3 * a.sin()], to: [(rho_edge - 1e-3) * a.cos(), (rho_edge - 1e-3) * a.sin()], arc: false });
        }
        curves.push(Sweep { face: 7, from: [0.33, (108.0 + 0.7) * rg::DEG], to: [0.33, (108.0 + 35.3) * rg::DEG], arc: true });
        for sw in &curves {
            let (n, w, v) = run_sweep(sw, hf, None);
            fsteps += n;
            fworst = fworst.max(w);
            rep.sink.extend(v);
        }
        sweep_steps += fsteps;
        fine = json!({"curves": curves.len(), "step": hf, "steps": fsteps, "worst_second_difference": fworst});
    }
    rep.set("sweeps", json!({"curves": sws.len(), "step": h, "steps": sweep_steps, "worst_second_difference": sweep_worst, "tolerance": SWEEP_TOL, "fine": fine}));
    rep.set("evaluations", json!(evals.load(Ordering::Relaxed) + sweep_steps));
    rep.set("distinct_nontrivial", json!(hard.load(Ordering::Relaxed)));
    rep.set("rule", json!(format!("planar polar lattice incl. reflected margin (radii up to 1.25 of the edge distance) + points 2 probe radii on either side of the 10 seams and of the 5 face edges, on all 12 faces; equilateral probe triangles (each edge split in {}), circumradii {:?}, rotations {:?}; probes that would straddle a seam, the centre or the edge are skipped ({}); plus second-difference sweeps: radial rays, arcs and margin rays inside single triangles walked in equal steps, consecutive unprojected step lengths equal within 1e-12 (see key sweeps); distinct_nontrivial = probes at seam/edge/margin/near-centre points", splits, radii, rots, skipped.load(Ordering::Relaxed))));
    rep.set("exhaustive", json!(true));
    rep.set("exhaustive_scope", json!("every probe of the stated finite lattice"));
    rep.set("expected_ratio", json!(expected));
    rep.set("worst_relative_error", json!(*worst.lock().unwrap()));
    rep.set("worst_at", worst_at.lock().unwrap().clone());
    rep.sample(json!({"probe_centre": base[40].0, "tag": base[40].1, "face": 3, "radius": radii[0]}));
    rep.assume("verdict holds on the lattice only (continuum not covered between lattice points)");
    rep.assume("probe area measured with great-circle edges between 48 unprojected boundary points; calibrated error < 1e-5");
    rep
}

pub fn replay_c15(case: &Value) -> Vec<Viol> {
    if case["kind"] == "wedge_history" {
        let g = |k: &str| case[k].as_u64().unwrap_or(0) as usize;
        return wedge_history(g("face") % 12, g("sector") % 10, Some((g("a") % 12, g("b") % 12))).1;
    }
    if case["kind"] == "forward_sweep" {
        let f = |k: &str| {
            let a = case[k].as_array().unwrap();
            [a[0].as_f64().unwrap(), a[1].as_f64().unwrap()]
        };
        let sw = Sweep { face: case["face"].as_u64().unwrap() as usize, from: f("from"), to: f("to"), arc: false };
        let t = case["t"].as_f64().unwrap_or(0.5);
        let h = case["h"].as_f64().unwrap_or(1e-7);
        let w = 4000.0 * h / 0.5;
        return run_forward_sweep(&sw, h, Some(((t - w).max(0.0), (t + w).min(1.0)))).2;
    }
    let worst = Mutex::new([0.0f64; 3]);
    match case["kind"].as_str().unwrap_or("") {
        "sphere_point" => {
            let a = case["v"].as_array().unwrap();
            let v = [a[0].as_f64().unwrap(), a[1].as_f64().unwrap(), a[2].as_f64().unwrap()];
            check_sphere_point(&rg::frame(), &geo::ref_face_pentagon(), v, &worst)
        }
        "plane_point" => {
            let a = case["q"].as_array().unwrap();
            check_plane_point([a[0].as_f64().unwrap(), a[1].as_f64().unwrap()], case["face"].as_u64().unwrap() as usize, &worst)
        }
        _ => vec![],
    }
}
pub fn replay_c16(case: &Value) -> Vec<Viol> {
    if case["kind"] == "foreign" {
        // the order matters: re-run the quick check as a whole and keep its verdicts
        let rep = run_c16("quick");
        return rep.sink.drain().0;
    }
    if case["kind"] == "sweep" {
        let f = |k: &str| {
            let a = case[k].as_array().unwrap();
            [a[0].as_f64().unwrap(), a[1].as_f64().unwrap()]
        };
        let sw = Sweep { face: case["face"].as_u64().unwrap() as usize, from: f("from"), to: f("to"), arc: case["arc"].as_bool().unwrap_or(false) };
        let t = case["t"].as_f64().unwrap_or(0.5);
        let h = case["h"].as_f64().unwrap_or(1e-7);
        // a window of a few thousand steps around the recorded parameter
        let w = 4000.0 * h / sw.length();
        return run_sweep(&sw, h, Some(((t - w).max(0.0), (t + w).min(1.0)))).2;
    }
    let a = case["q"].as_array().unwrap();
    let q = [a[0].as_f64().unwrap(), a[1].as_f64().unwrap()];
    let face = case["face"].as_u64().unwrap() as usize;
    let (rad, rot) = (case["radius"].as_f64().unwrap(), case["rot"].as_f64().unwrap());
    let rho = (q[0] * q[0] + q[1] * q[1]).sqrt();
    match probe_ratio(q, face, rad, rot, if rho < 100.0 * rad { 64 } else { 16 }) {
        Ok(ratio) => {
            let orient = case["orient"].as_f64().unwrap_or(ratio.signum());
            let rel = (orient * ratio / geo::area_scale() - 1.0).abs();
            if rel <= 1e-4 {
                vec![]
            } else {
                vec![viol("C16/area-ratio", format!("relative error {:.3e}", rel), case.clone())]
            }
        }
        Err(e) => vec![viol("C16/inverse-error", e, case.clone())],
    }
}
