//! C03 — cells of one resolution partition the sphere: no overlaps, no gaps.
use crate::enumerate as en;
use crate::ev::{viol, Report, Viol};
use crate::geo;
use crate::refcodec as rc;
use crate::refgeom as rg;
use crate::refgeom::{P2, V3};
use crate::subj;
use rayon::prelude::*;
use serde_json::{json, Value};
use std::sync::atomic::{AtomicU64, Ordering};

pub const BAND: f64 = 4e-12;

pub struct CellGeom {
    pub id: u64,
    pub face: u8,
    pub poly: Vec<P2>,
    pub bbox: [f64; 4],
    pub diam: f64,
    pub area: f64,
}

fn geom(c: u64) -> Result<CellGeom, String> {
    let (face, poly) = geo::cell_poly(c)?;
    let mut bbox = [f64::INFINITY, f64::INFINITY, f64::NEG_INFINITY, f64::NEG_INFINITY];
    for p in &poly {
        bbox[0] = bbox[0].min(p[0]);
        bbox[1] = bbox[1].min(p[1]);
        bbox[2] = bbox[2].max(p[0]);
        bbox[3] = bbox[3].max(p[1]);
    }
    Ok(CellGeom { id: c, face, diam: rg::diameter(&poly), area: rg::shoelace(&poly), poly, bbox })
}

fn in_bbox(b: &[f64; 4], p: P2, pad: f64) -> bool {
    p[0] >= b[0] - pad && p[0] <= b[2] + pad && p[1] >= b[1] - pad && p[1] <= b[3] + pad
}

/// all cells of resolution r grouped by face
pub fn level_geoms(r: i32) -> Result<Vec<Vec<CellGeom>>, String> {
    let cells = rc::all_cells(r);
    let gs: Vec<Result<CellGeom, String>> = cells.par_iter().map(|&c| geom(c)).collect();
    let mut by_face: Vec<Vec<CellGeom>> = (0..12).map(|_| Vec::new()).collect();
    for g in gs {
        let g = g?;
        by_face[g.face as usize].push(g);
    }
    Ok(by_face)
}

/// (i) same-face planar overlaps
fn same_face_overlaps(face: &[CellGeom], pairs: &AtomicU64) -> Vec<Viol> {
    (0..face.len())
        .into_par_iter()
        .flat_map(|i| {
            let mut out = Vec::new();
            let a = &face[i];
            for b in face.iter().skip(i + 1) {
                if a.bbox[0] > b.bbox[2] || b.bbox[0] > a.bbox[2] || a.bbox[1] > b.bbox[3] || b.bbox[1] > a.bbox[3] {
                    continue;
                }
                pairs.fetch_add(1, Ordering::Relaxed);
                let inter = rg::shoelace(&rg::clip_convex(&a.poly, &b.poly)).abs();
                if inter > 1e-9 * a.area.min(b.area) {
                    out.push(viol(
                        "C03/overlap-same-face",
                        format!("cells {} and {} overlap: shared area {:.3e} = {:.3e} of a cell", subj::hex(a.id), subj::hex(b.id), inter, inter / a.area),
                        json!({"kind": "cell_pair", "a": subj::hex(a.id), "b": subj::hex(b.id)}),
                    ));
                }
            }
            out
        })
        .collect()
}

/// count cells (of the nearest three faces) that contain v strictly / within the band
fn containing(levels: &[Vec<CellGeom>], fr: &rg::Frame, v: V3) -> Result<(Vec<u64>, Vec<u64>), String> {
    let mut strict = Vec::new();
    let mut band = Vec::new();
    for &(_, f) in fr.ranked(v).iter().take(3) {
        let p = subj::forward(v, f as u8)?;
        if p[0] * p[0] + p[1] * p[1] > 1.2 {
            continue; // far outside this face's extended pentagon
        }
        for g in &levels[f] {
            if !in_bbox(&g.bbox, p, 1e-9) {
                continue;
            }
            let d = rg::signed_dist_convex(&g.poly, p);
            if d >= -BAND {
                band.push(g.id);
                if d > 1e-9 * g.diam + BAND {
                    strict.push(g.id);
                }
            }
        }
    }
    Ok((strict, band))
}

pub fn check_point(levels: &[Vec<CellGeom>], fr: &rg::Frame, v: V3, r: i32) -> Vec<Viol> {
    let case = json!({"kind": "sphere_point", "v": [v[0], v[1], v[2]], "res": r});
    match containing(levels, fr, v) {
        Ok((strict, band)) => {
            let mut out = Vec::new();
            if strict.len() > 1 {
                out.push(viol("C03/overlap", format!("point lies strictly inside {} cells of resolution {}: {:?}", strict.len(), r, strict.iter().map(|&c| subj::hex(c)).collect::<Vec<_>>()), case.clone()));
            }
            if band.is_empty() {
                out.push(viol("C03/gap", format!("point lies in no cell of resolution {} (exhaustive search over all cells of the three nearest faces)", r), case));
            }
            out
        }
        Err(e) => vec![viol("C03/projection-error", e, case)],
    }
}

/// (ii) interior points of every cell are strictly inside no other cell (same or other face)
fn check_cell_exclusive(levels: &[Vec<CellGeom>], fr: &rg::Frame, g: &CellGeom, r: i32) -> Vec<Viol> {
    let mut out = Vec::new();
    for q in geo::cell_interior_points(&g.poly, &[0.5, 0.9, 0.99]).into_iter() {
        let v = match subj::inverse(q, g.face) {
            Ok(v) => v,
            Err(_) => continue,
        };
        // own membership must be confirmed by the forward image, otherwise no verdict
        match subj::forward(v, g.face) {
            Ok(p) if rg::signed_dist_convex(&g.poly, p) > 1e-9 * g.diam + BAND => {}
            _ => continue,
        }
        // the library's own containment predicate (it decides what a lookup returns, and callers use it
        // directly) must say "inside" for the owner and "outside" for the other cells of the level that
        // are near (same face; all cells for resolution 0 and 1)
        {
            let (lon, lat) = rg::vec_to_ll(v);
            let vv = rg::ll_to_vec(lon, lat);
            let still_inside = matches!(subj::forward(vv, g.face), Ok(p) if rg::signed_dist_convex(&g.poly, p) > 1e-6 * g.diam + BAND);
            if still_inside {
                let others: Vec<&CellGeom> = if r <= 1 { levels.iter().flatten().collect() } else { levels[g.face as usize].iter().filter(|o| o.bbox[0] <= g.bbox[2] + g.diam && o.bbox[2] >= g.bbox[0] - g.diam && o.bbox[1] <= g.bbox[3] + g.diam && o.bbox[3] >= g.bbox[1] - g.diam).collect() };
                for o in others {
                    if let Ok(cell) = subj::deserialize(o.id) {
                        let inside = subj::guard(|| a5::core::cell::a5cell_contains_point(&cell, a5::coordinate_systems::LonLat::new(lon, lat))).map(|d| d > 0.0);
                        match inside {
                            Ok(b) if b == (o.id == g.id) => {}
                            Ok(b) => {
                                out.push(viol(
                                    "C03/predicate-overlap",
                                    format!("a point strictly inside {} only is reported {} {} by the library's containment predicate (resolution {})", subj::hex(g.id), if b { "inside" } else { "outside" }, subj::hex(o.id), r),
                                    json!({"kind": "cell_pair", "a": subj::hex(g.id), "b": subj::hex(o.id)}),
                                ));
                                return out;
                            }
                            Err(_) => {}
                        }
                    }
                }
            }
        }
        if let Ok((strict, _)) = containing(levels, fr, v) {
            for o in strict {
                if o != g.id {
                    out.push(viol(
                        "C03/overlap",
                        format!("an interior point of {} is also strictly inside {} (resolution {})", subj::hex(g.id), subj::hex(o), r),
                        json!({"kind": "cell_pair", "a": subj::hex(g.id), "b": subj::hex(o)}),
                    ));
                    return out;
                }
            }
        }
    }
    out
}

/// (v) fine resolutions: neighbourhood found by lookups on two rings; strict containment exclusive
pub fn check_fine(v: V3, r: i32) -> (u64, Vec<Viol>) {
    let mut out = Vec::new();
    let (lon, lat) = rg::vec_to_ll(v);
    let case = json!({"kind": "fine", "lon": lon, "lat": lat, "res": r});
    let size = geo::cell_size(r);
    let mut cells: Vec<u64> = Vec::new();
    let mut add = |w: V3| {
        let (lo, la) = rg::vec_to_ll(w);
        if let Ok(c) = subj::lookup(lo, la, r) {
            if rc::resolution(c) == Some(r) {
                cells.push(c);
            }
        }
    };
    add(v);
    for (n, rad) in [(12, 1.0), (24, 2.0)] {
        for k in 0..n {
            let a = k as f64 * 2.0 * rg::PI / n as f64 + 0.05;
            add(rg::offset(v, rad * size * a.cos(), rad * size * a.sin()));
        }
    }
    cells.sort_unstable();
    cells.dedup();
    let geoms: Vec<CellGeom> = cells.iter().filter_map(|&c| geom(c).ok()).collect();
    let strict_in = |w: V3| -> Vec<u64> {
        let mut s = Vec::new();
        for g in &geoms {
            if let Ok(p) = subj::forward(w, g.face) {
                if p[0] * p[0] + p[1] * p[1] > 1.2 {
                    continue;
                }
                if rg::signed_dist_convex(&g.poly, p) > 1e-9 * g.diam + BAND {
                    s.push(g.id);
                }
            }
        }
        s
    };
    let vv = rg::ll_to_vec(lon, lat);
    let s0 = strict_in(vv);
    // no gap: some cell of the neighbourhood (it includes the cell the lookup of the point itself
    // returns) contains the point within the band
    {
        let mut best = f64::NEG_INFINITY;
        for g in &geoms {
            if let Ok(p) = subj::forward(vv, g.face) {
                if p[0] * p[0] + p[1] * p[1] > 1.2 {
                    continue;
                }
                best = best.max(rg::signed_dist_convex(&g.poly, p) / g.diam.max(1e-300));
            }
        }
        if !(best >= -1e-6) {
            out.push(viol("C03/gap", format!("no cell of the two-ring neighbourhood found by lookups at resolution {} contains the point ({} candidate cells, best signed distance {:.3e} cell diameters)", r, geoms.len(), best), case.clone()));
        }
    }
    if s0.len() > 1 {
        out.push(viol("C03/overlap", format!("point lies strictly inside {} cells of resolution {}: {:?}", s0.len(), r, s0.iter().map(|&c| subj::hex(c)).collect::<Vec<_>>()), case.clone()));
    }
    // corners and edge midpoints of a cell are strictly inside no cell (cells of two faces that are
    // sheared against each other push each other's corners into their interiors)
    for g in &geoms {
        for q in geo::cell_interior_points(&g.poly, &[1.0]).into_iter().skip(1) {
            if let Ok(w) = subj::inverse(q, g.face) {
                // the point must really be on g's boundary as seen through the forward projection
                match subj::forward(w, g.face) {
                    Ok(p) if rg::signed_dist_convex(&g.poly, p).abs() <= 1e-12 => {}
                    _ => continue,
                }
                let s = strict_in(w);
                if let Some(&o) = s.iter().find(|&&x| x != g.id) {
                    out.push(viol(
                        "C03/overlap",
                        format!("a corner or edge midpoint of {} lies strictly inside {} (resolution {})", subj::hex(g.id), subj::hex(o), r),
                        json!({"kind": "cell_pair", "a": subj::hex(g.id), "b": subj::hex(o)}),
                    ));
                    return (geoms.len() as u64, out);
                }
            }
        }
    }
    // the library's own containment predicate must agree that strict-interior points of a cell are
    // inside that cell only (it decides which cell a lookup returns)
    let cells_a5: Vec<(u64, a5::core::utils::A5Cell)> = geoms.iter().filter_map(|g| subj::deserialize(g.id).ok().map(|c| (g.id, c))).collect();
    for g in &geoms {
        for q in geo::cell_interior_points(&g.poly, &[0.5, 0.9]) {
            if let Ok(w) = subj::inverse(q, g.face) {
                let s = strict_in(w);
                if s.len() == 1 && s[0] == g.id {
                    let (lo, la) = rg::vec_to_ll(w);
                    // re-classify what is actually passed in
                    if strict_in(rg::ll_to_vec(lo, la)) != s {
                        continue;
                    }
                    for (id, c) in &cells_a5 {
                        let inside = subj::guard(|| a5::core::cell::a5cell_contains_point(c, a5::coordinate_systems::LonLat::new(lo, la))).map(|d| d > 0.0);
                        match inside {
                            Ok(b) if b == (*id == g.id) => {}
                            Ok(b) => {
                                out.push(viol(
                                    "C03/predicate-overlap",
                                    format!("a point strictly inside {} only is reported {} {} by the library's containment predicate (resolution {})", subj::hex(g.id), if b { "inside" } else { "outside" }, subj::hex(*id), r),
                                    json!({"kind": "fine", "lon": lon, "lat": lat, "res": r}),
                                ));
                                return (geoms.len() as u64, out);
                            }
                            Err(_) => {}
                        }
                    }
                }
                if s.contains(&g.id) && s.len() > 1 {
                    out.push(viol("C03/overlap", format!("an interior point of {} is strictly inside {} cells of resolution {}", subj::hex(g.id), s.len(), r), json!({"kind": "cell_pair", "a": subj::hex(g.id), "b": subj::hex(*s.iter().find(|&&x| x != g.id).unwrap())})));
                    break;
                }
            }
        }
    }
    (geoms.len() as u64, out)
}


/// (viii) order mixing across a dodecahedron edge. The containment predicate projects its point relative to
/// the cell's face; for cells that interlock across a face edge, callers (and the lookup itself) ask about
/// points on both sides of the edge in arbitrary order. For a cell A next to a face edge and a cell B of the
/// neighbouring face beyond that edge: all ordered pairs (p, q) over the strict-interior points of A and of B
/// (fractions 0.9 / 0.99 / 0.999 towards every corner and edge midpoint, and the centre), asked of A and of B
/// on one fresh thread: `contains(X, p)` then `contains(X, q)`; the second answer must be "inside" exactly when
/// q is one of X's own points.
fn interior_lonlats(g: &CellGeom) -> Vec<(f64, f64)> {
    let mut out = Vec::new();
    for q in geo::cell_interior_points(&g.poly, &[0.9, 0.99, 0.999]) {
        if let Ok(v) = subj::inverse(q, g.face) {
            let (lon, lat) = rg::vec_to_ll(v);
            // own membership must survive the lon/lat round trip with margin, otherwise no verdict on this point
            if matches!(subj::forward(rg::ll_to_vec(lon, lat), g.face), Ok(p) if rg::signed_dist_convex(&g.poly, p) > 2e-4 * g.diam + BAND) {
                out.push((lon, lat));
            }
        }
    }
    out
}
pub fn order_mixing_pair(a: &CellGeom, b: &CellGeom, r: i32) -> (u64, Vec<Viol>) {
    let (pa, pb) = std::thread::scope(|sc| sc.spawn(|| (interior_lonlats(a), interior_lonlats(b))).join().unwrap_or_default());
    let cells = match (subj::deserialize(a.id), subj::deserialize(b.id)) {
        (Ok(x), Ok(y)) => [x, y],
        _ => return (0, vec![]),
    };
    let ids = [a.id, b.id];
    let pts: Vec<(f64, f64, usize)> = pa.iter().map(|&(lo, la)| (lo, la, 0usize)).chain(pb.iter().map(|&(lo, la)| (lo, la, 1usize))).collect();
    let pts_ref = &pts;
    let cells_ref = &cells;
    std::thread::scope(|sc| {
        sc.spawn(move || {
            let ask = |x: usize, p: &(f64, f64, usize)| subj::guard(|| a5::core::cell::a5cell_contains_point(&cells_ref[x], a5::coordinate_systems::LonLat::new(p.0, p.1))).map(|d| d > 0.0);
            let mut n = 0u64;
            for x in 0..2 {
                for p in pts_ref.iter() {
                    for q in pts_ref.iter() {
                        let _ = ask(x, p);
                        n += 2;
                        match ask(x, q) {
                            Ok(inside) if inside == (q.2 == x) => {}
                            Ok(inside) => {
                                return (n, vec![viol(
                                    "C03/predicate-depends-on-previous-point",
                                    format!("resolution {}: the point ({}, {}), strictly inside {}, is reported {} {} by the library's containment predicate right after the predicate was asked about the point ({}, {}) of {}", r, q.0, q.1, subj::hex(ids[q.2]), if inside { "inside" } else { "outside" }, subj::hex(ids[x]), p.0, p.1, subj::hex(ids[p.2])),
                                    json!({"kind": "order_mixing", "a": subj::hex(ids[0]), "b": subj::hex(ids[1])}),
                                )]);
                            }
                            Err(_) => {}
                        }
                    }
                }
            }
            (n, vec![])
        })
        .join()
        .unwrap_or((0, vec![]))
    })
}
/// the (A, B) pairs of one resolution: A has a corner within one cell diameter of its face's edge, B is a cell
/// of another face that strictly contains a point 1.6 x (corner - centre) away from A's centre
fn order_mixing_pairs<'a>(levels: &'a [Vec<CellGeom>], fr: &rg::Frame) -> Vec<(&'a CellGeom, &'a CellGeom)> {
    let pent = geo::ref_face_pentagon();
    let mut out: Vec<(&CellGeom, &CellGeom)> = Vec::new();
    for g in levels.iter().flatten() {
        if g.poly.iter().all(|p| rg::signed_dist_convex(&pent, *p) > g.diam) {
            continue;
        }
        let c = rg::centroid_mean(&g.poly);
        let mut seen: Vec<u64> = Vec::new();
        for v in g.poly.iter() {
            let q = [c[0] + 1.6 * (v[0] - c[0]), c[1] + 1.6 * (v[1] - c[1])];
            if let Ok(sv) = subj::inverse(q, g.face) {
                if let Ok((strict, _)) = containing(levels, fr, sv) {
                    for o in strict {
                        if seen.contains(&o) {
                            continue;
                        }
                        if let Some(b) = levels.iter().flatten().find(|x| x.id == o && x.face != g.face) {
                            seen.push(o);
                            out.push((g, b));
                        }
                    }
                }
            }
        }
    }
    out
}

pub fn run(tier: &str, verif_dir: &str) -> Report {
    let mut rep = Report::new("exploration");
    let fr = rg::frame();
    let rmax = if tier == "quick" { 4 } else { 6 };
    let pairs = AtomicU64::new(0);
    let mut evals = 0u64;
    let mut hard = 0u64;
    let pts: Vec<(V3, &'static str)> = super::proj::sphere_vectors(if tier == "quick" { "quick" } else { "thorough" }).into_iter().step_by(if tier == "quick" { 1 } else { 4 }).collect();
    let mut sums = Vec::new();
    let mut mixing: Vec<Value> = Vec::new();
    for r in 0..=rmax {
        let levels = match level_geoms(r) {
            Ok(l) => l,
            Err(e) => {
                rep.sink.push(viol("C03/pentagon-error", e, json!({"kind": "level", "res": r})));
                continue;
            }
        };
        // (i)
        for f in 0..12 {
            rep.sink.extend(same_face_overlaps(&levels[f], &pairs));
        }
        // (ii)
        let all: Vec<&CellGeom> = levels.iter().flatten().collect();
        let step = if r >= 6 { 4 } else { 1 };
        let vs: Vec<Viol> = all.par_iter().step_by(step).flat_map(|g| check_cell_exclusive(&levels, &fr, g, r)).collect();
        rep.sink.extend(vs);
        evals += (all.len() / step) as u64 * 7;
        // (iii)
        if r <= 5 {
            let vs: Vec<Viol> = pts.par_iter().flat_map(|(v, _)| check_point(&levels, &fr, *v, r)).collect();
            rep.sink.extend(vs);
            evals += pts.len() as u64;
            hard += pts.iter().filter(|p| p.1 != "uniform").count() as u64;
        }
        // (viii) order mixing across face edges (see `order_mixing_pair`)
        if r >= 2 && r <= if tier == "quick" { 3 } else { 5 } {
            let prs = std::thread::scope(|sc| sc.spawn(|| order_mixing_pairs(&levels, &fr)).join().unwrap_or_default());
            let stepm = if r >= 5 { 3 } else { 1 };
            let res: Vec<(u64, Vec<Viol>)> = prs.par_iter().step_by(stepm).map(|(a, b)| order_mixing_pair(a, b, r)).collect();
            let mut calls = 0u64;
            for (n, v) in res {
                calls += n;
                rep.sink.extend(v);
            }
            mixing.push(json!({"res": r, "cell_pairs_across_a_face_edge": prs.len() / stepm, "predicate_calls": calls}));
            evals += calls;
        }
        // (iv) measure
        if r <= 3 {
            let total: f64 = all.par_iter().map(|g| geo::ring_vectors(g.id, 32).map(|ring| rg::poly_area(&ring)).unwrap_or(0.0)).sum();
            let rel = (total / (4.0 * rg::PI) - 1.0).abs();
            sums.push(json!({"res": r, "relative_error": rel}));
            if !(rel <= 1e-4) {
                rep.sink.push(viol("C03/measure", format!("signed areas of all cells of resolution {} sum to {:.10} sr instead of 4 pi", r, total), json!({"kind": "level", "res": r})));
            }
        }
    }
    // (v) fine resolutions
    let sub: Vec<V3> = {
        let mut s: Vec<V3> = rg::fibonacci(if tier == "quick" { 96 } else { 2048 });
        for p in en::frame_points(false).into_iter().filter(|p| p.tag == "frame-vertex") {
            s.push(p.v);
        }
        s.push([0.0, 0.0, 1.0]);
        s.push([0.0, 0.0, -1.0]);
        s
    };
    let fine_res: &[i32] = if tier == "quick" { &[8, 16, 24, 29] } else { &[7, 8, 10, 12, 14, 16, 18, 20, 22, 24, 26, 27, 28, 29] };
    let fine_cells = AtomicU64::new(0);
    // points along the 30 dodecahedron edges (away from the midpoints), within one cell of the edge:
    // this is where cells of two faces interlock
    let edge_tracks: Vec<(V3, V3)> = {
        let mut v = Vec::new();
        let nedges = if tier == "quick" { 10 } else { 30 };
        for m in fr.midpoints.iter().take(nedges) {
            let mut vs: Vec<(f64, V3)> = fr.vertices.iter().map(|x| (rg::ang(*x, *m), *x)).collect();
            vs.sort_by(|a, b| a.0.partial_cmp(&b.0).unwrap());
            let (a, b) = (vs[0].1, vs[1].1);
            let nrm = rg::unit(rg::cross(a, b));
            for t in [0.15, 0.35, 0.8] {
                let p = rg::unit(rg::add(rg::scale(a, 1.0 - t), rg::scale(b, t)));
                v.push((p, nrm));
            }
        }
        v
    };
    for &r in fine_res {
        let size = geo::cell_size(r);
        let mut pts_r: Vec<V3> = sub.clone();
        for (p, nrm) in &edge_tracks {
            for o in [0.0, 0.3, -0.3, 0.8, -0.8] {
                pts_r.push(rg::unit(rg::add(*p, rg::scale(*nrm, o * size))));
            }
        }
        let vs: Vec<Viol> = pts_r
            .par_iter()
            .flat_map(|v| {
                let (n, out) = check_fine(*v, r);
                fine_cells.fetch_add(n, Ordering::Relaxed);
                out
            })
            .collect();
        rep.sink.extend(vs);
        evals += sub.len() as u64;
    }
    // (vii) the REPORTED rings partition the sphere too: for every cell of resolution <= 3 (5), its reported
    // corners and edge midpoints pulled 1.2 % and 4 % towards its reported centre must lie inside its own ring
    // (16 segments per edge) and inside no ring of a neighbouring cell (centre within 2.6 cell sizes); a
    // corner that one cell reports somewhere else than its neighbours do shows as an overlap or a gap
    let mut ring_probes = 0u64;
    {
        let rr = if tier == "quick" { 3 } else { 5 };
        for r in 0..=rr {
            let cells = rc::all_cells(r);
            let rings: Vec<Option<(V3, Vec<V3>, Vec<V3>)>> = cells
                .par_iter()
                .map(|&c| {
                    let fine = geo::ring_vectors(c, 16).ok()?;
                    let coarse = geo::ring_vectors(c, 2).ok()?;
                    let (lon, lat) = subj::centre(c).ok()?;
                    Some((rg::ll_to_vec(lon, lat), fine, coarse))
                })
                .collect();
            let size = geo::cell_size(r);
            let cnt = AtomicU64::new(0);
            let vs: Vec<Viol> = (0..cells.len())
                .into_par_iter()
                .flat_map(|i| {
                    let mut out = Vec::new();
                    let (ci, _fi, coarse) = match &rings[i] {
                        Some(x) => x,
                        None => return vec![viol("C03/pentagon-error", "no ring".into(), json!({"kind": "cell_pair", "a": subj::hex(cells[i]), "b": subj::hex(cells[i])}))],
                    };
                    for (v, pull) in coarse.iter().flat_map(|v| [(v, 0.012), (v, 0.04)]) {
                        let p = rg::unit(rg::add(rg::scale(*v, 1.0 - pull), rg::scale(*ci, pull)));
                        cnt.fetch_add(1, Ordering::Relaxed);
                        let mut owners: Vec<u64> = Vec::new();
                        for (j, rj) in rings.iter().enumerate() {
                            if let Some((cj, fj, _)) = rj {
                                if r >= 1 && rg::ang(*cj, p) > 2.6 * size {
                                    continue;
                                }
                                // well inside / outside only: skip rings whose boundary passes within 0.3 % of a cell
                                if rg::dist_to_ring(fj, p) < 0.003 * size {
                                    if j == i {
                                        owners.push(cells[j]);
                                    }
                                    continue;
                                }
                                if rg::winding(fj, p).map(|w| w != 0).unwrap_or(false) {
                                    owners.push(cells[j]);
                                }
                            }
                        }
                        if owners != vec![cells[i]] {
                            let (lon, lat) = rg::vec_to_ll(p);
                            out.push(viol(
                                "C03/reported-rings",
                                format!("point ({}, {}), just inside {} from one of its reported corners / edge midpoints, lies inside the reported rings of {:?} (resolution {})", lon, lat, subj::hex(cells[i]), owners.iter().map(|&c| subj::hex(c)).collect::<Vec<_>>(), r),
                                json!({"kind": "ring_cell", "id": subj::hex(cells[i])}),
                            ));
                            break;
                        }
                    }
                    out
                })
                .collect();
            rep.sink.extend(vs.into_iter().take(4).collect::<Vec<_>>());
            ring_probes += cnt.load(Ordering::Relaxed);
        }
    }
    rep.set("reported_ring_probe_points", json!(ring_probes));
    evals += ring_probes;
    // (vi) word-aligned cells (low 8..20 curve digits all 0 or all 3, resolutions 10..29): the place where
    // the reference release puts such a cell (frozen centre of golden/cells2.bin) must be covered by exactly
    // one cell of its neighbourhood
    let mut aligned = 0u64;
    if let Ok((cells, _)) = super::golden::load_second_generation(&format!("{}/golden", verif_dir)) {
        let step = if tier == "quick" { 4 } else { 1 };
        let recs: Vec<(V3, i32)> = cells.iter().step_by(step).filter_map(|r| rc::resolution(r.id).map(|res| (rg::ll_to_vec(r.centre.0, r.centre.1), res))).collect();
        aligned = recs.len() as u64;
        let vs: Vec<Viol> = recs
            .par_iter()
            .flat_map(|(v, r)| {
                let (n, out) = check_fine(*v, *r);
                fine_cells.fetch_add(n, Ordering::Relaxed);
                out
            })
            .collect();
        rep.sink.extend(vs);
        evals += aligned;
    }
    rep.set("word_aligned_cell_places_checked", json!(aligned));
    rep.set("evaluations", json!(evals + pairs.load(Ordering::Relaxed)));
    rep.set("distinct_nontrivial", json!(hard + pairs.load(Ordering::Relaxed)));
    rep.set("rule", json!(format!("for every resolution 0..{}: (i) all pairs of cells of each face with intersecting bounding boxes, planar clipped overlap <= 1e-9 cell areas; (ii) 7 strict-interior points of every cell searched in ALL cells of the three nearest faces: strictly inside no other cell; (iii, r<=5) every point of the sphere lattice ({} points incl. frame vertices, edges, seams, caps) searched exhaustively in all cells of the three nearest faces: in >=1 cell within the band, strictly in <=1; (iv, r<=3) signed areas sum to 4 pi; (v) at r in {:?}: two-ring neighbourhoods found by lookup around {} points, strict containment exclusive and no gap at the point; (vi) the same around the frozen reference centres of word-aligned cells (r 10..29); distinct_nontrivial = candidate pairs clipped + lattice points on case splits", rmax, pts.len(), fine_res, sub.len())));
    rep.set("exhaustive", json!(true));
    rep.set("exhaustive_scope", json!(format!("all cells x all cells of a face for r<={}; lattice points only for the no-gap claim", rmax)));
    rep.set("pairs_clipped", json!(pairs.load(Ordering::Relaxed)));
    rep.set("fine_neighbourhood_cells", json!(fine_cells.load(Ordering::Relaxed)));
    rep.set("area_sums", json!(sums));
    rep.set("order_mixing_across_face_edges", json!(mixing));
    rep.sample(json!({"sphere_point": pts[pts.len() / 2].0, "tag": pts[pts.len() / 2].1}));
    rep.assume("no-gap verdict holds on lattice points; the measure check (iv) and C04 bound the total measure of any gap");
    rep.assume("cross-face containment uses the real forward projection (validated separately by C15)");
    rep
}

pub fn replay(case: &Value) -> Vec<Viol> {
    let fr = rg::frame();
    match case["kind"].as_str().unwrap_or("") {
        "sphere_point" => {
            let a = case["v"].as_array().unwrap();
            let v = [a[0].as_f64().unwrap(), a[1].as_f64().unwrap(), a[2].as_f64().unwrap()];
            let r = case["res"].as_i64().unwrap() as i32;
            match level_geoms(r) {
                Ok(l) => check_point(&l, &fr, v, r),
                Err(e) => vec![viol("C03/pentagon-error", e, case.clone())],
            }
        }
        "ring_cell" => {
            // re-run the reported-ring pass of the quick tier and keep its verdicts
            let rep = run("quick", "/verif");
            let (v, _) = rep.sink.drain();
            v.into_iter().filter(|x| x.class == "C03/reported-rings").collect()
        }
        "fine" => check_fine(rg::ll_to_vec(case["lon"].as_f64().unwrap(), case["lat"].as_f64().unwrap()), case["res"].as_i64().unwrap() as i32).1,
        "order_mixing" => {
            let a = u64::from_str_radix(case["a"].as_str().unwrap(), 16).unwrap();
            let b = u64::from_str_radix(case["b"].as_str().unwrap(), 16).unwrap();
            match (geom(a), geom(b)) {
                (Ok(ga), Ok(gb)) => order_mixing_pair(&ga, &gb, rc::resolution(a).unwrap_or(0)).1,
                _ => vec![],
            }
        }
        "cell_pair" => {
            let a = u64::from_str_radix(case["a"].as_str().unwrap(), 16).unwrap();
            let b = u64::from_str_radix(case["b"].as_str().unwrap(), 16).unwrap();
            match (geom(a), geom(b)) {
                (Ok(ga), Ok(gb)) if ga.face == gb.face => {
                    let inter = rg::shoelace(&rg::clip_convex(&ga.poly, &gb.poly)).abs();
                    if inter > 1e-9 * ga.area.min(gb.area) {
                        vec![viol("C03/overlap-same-face", format!("shared area {:.3e}", inter), case.clone())]
                    } else {
                        vec![]
                    }
                }
                (Ok(ga), Ok(_)) => {
                    let r = rc::resolution(a).unwrap();
                    match level_geoms(r) {
                        Ok(l) => check_cell_exclusive(&l, &fr, &ga, r),
                        Err(e) => vec![viol("C03/pentagon-error", e, case.clone())],
                    }
                }
                _ => vec![],
            }
        }
        _ => vec![],
    }
}
