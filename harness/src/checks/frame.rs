//! C18 (the 12-face frame) and C19 (authalic / lon-lat conversions).
use crate::enumerate as en;
use crate::ev::{viol, Report, Viol};
use crate::refcodec as rc;
use crate::refgeom as rg;
use crate::refgeom::V3;
use crate::subj;
use a5::coordinate_systems::Radians;
use a5::projections::authalic::AuthalicProjection;
use rayon::prelude::*;
use serde_json::{json, Value};
use std::sync::Mutex;

/// quintant -> (segment, orientation) on every face, as the reference release has it (the per-face layout
/// rows are part of the documented frame: a consistent change of a row keeps every round trip inside the
/// library but moves the curve's entry corner, i.e. ids denote other cells)
const REF_RELABEL: [[(usize, &str); 5]; 12] = [
    [(3, "VW"), (2, "VW"), (1, "VW"), (0, "UW"), (4, "VU")],
    [(0, "WU"), (1, "UW"), (2, "VU"), (3, "UV"), (4, "WV")],
    [(0, "WV"), (1, "WU"), (2, "UW"), (3, "WU"), (4, "UV")],
    [(0, "WU"), (1, "UV"), (2, "WV"), (3, "WU"), (4, "UW")],
    [(4, "VW"), (3, "UW"), (2, "WU"), (1, "UW"), (0, "VU")],
    [(0, "UV"), (1, "WV"), (2, "WU"), (3, "UW"), (4, "VU")],
    [(4, "VW"), (3, "UW"), (2, "WU"), (1, "UW"), (0, "VU")],
    [(4, "VW"), (3, "UW"), (2, "WU"), (1, "UW"), (0, "VU")],
    [(0, "WV"), (1, "WU"), (2, "UW"), (3, "WU"), (4, "UV")],
    [(0, "VU"), (1, "UV"), (2, "WV"), (3, "WU"), (4, "UW")],
    [(0, "WV"), (1, "WU"), (2, "UW"), (3, "VU"), (4, "UV")],
    [(0, "WU"), (4, "UW"), (3, "VU"), (2, "VW"), (1, "UW")],
];

fn nearest_ok(f: &rg::Frame, v: V3, face: usize) -> (bool, f64) {
    let ranked = f.ranked(v);
    let dmin = ranked[0].0;
    let d = rg::ang(f.centres[face], v);
    (d - dmin <= 1e-9, ranked[1].0 - ranked[0].0)
}

pub fn check_nearest(f: &rg::Frame, lon: f64, lat: f64) -> Vec<Viol> {
    let mut out = Vec::new();
    let v = rg::ll_to_vec(lon, lat);
    let case = json!({"kind": "lonlat", "lon": lon, "lat": lat});
    // public lookups at r=0 and r=1
    for r in [0, 1] {
        match subj::lookup(lon, lat, r) {
            Ok(id) => match rc::decode(id) {
                Some(t) if t.res == r => {
                    let (ok, _) = nearest_ok(f, v, t.face as usize);
                    if !ok {
                        out.push(viol("C18/nearest-face", format!("lookup at r={} chose face {} but face {} is nearer by great-circle distance", r, t.face, f.ranked(v)[0].1), case.clone()));
                    }
                }
                _ => out.push(viol("C18/lookup-id", format!("lookup at r={} returned {}", r, subj::hex(id)), case.clone())),
            },
            Err(e) => out.push(viol("C18/lookup-error", e, case.clone())),
        }
    }
    // internal nearest-origin selection
    match subj::guard_val(|| a5::core::origin::find_nearest_origin(subj::sph(v)).id as usize) {
        Ok(face) => {
            let (ok, _) = nearest_ok(f, v, face);
            if !ok {
                out.push(viol("C18/nearest-face", format!("find_nearest_origin chose face {} but face {} is nearer", face, f.ranked(v)[0].1), case));
            }
        }
        Err(e) => out.push(viol("C18/nearest-error", e, case)),
    }
    out
}

pub fn run_c18(tier: &str) -> Report {
    let mut rep = Report::new("exploration");
    let f = rg::frame();
    let mut evals = 0u64;
    // --- base cells sit on the reference face centres
    let cells = subj::guard(|| a5::get_res0_cells());
    let ring = 2.0f64.atan();
    match &cells {
        Ok(cs) if cs.len() == 12 => {
            let mut centres: Vec<V3> = Vec::new();
            for (k, &c) in cs.iter().enumerate() {
                evals += 1;
                let want_id = rc::encode(rc::Tuple { face: k as u64, quintant: 0, s: 0, res: 0 }).unwrap();
                if c != want_id {
                    rep.sink.push(viol("C18/base-cell-ids", format!("get_res0_cells()[{}] = {}", k, subj::hex(c)), json!({"kind": "face", "face": k})));
                }
                match subj::centre(want_id) {
                    Ok((lon, lat)) => {
                        let v = rg::ll_to_vec(lon, lat);
                        centres.push(v);
                        let e = rg::ang(v, f.centres[k]) / rg::DEG;
                        if !(e <= 1e-9) {
                            rep.sink.push(viol(
                                "C18/face-centre",
                                format!("base cell {} is centred at ({:.9}, {:.9}), {:.3e} deg from the reference dodecahedron face centre {:?}", k, lon, lat, e, rg::vec_to_ll(f.centres[k])),
                                json!({"kind": "face", "face": k}),
                            ));
                        }
                    }
                    Err(e) => rep.sink.push(viol("C18/face-centre", e, json!({"kind": "face", "face": k}))),
                }
            }
            // all 66 pairs: angles in {63.43, 116.57, 180} with multiplicities 5/5/1 per face
            if centres.len() == 12 {
                for i in 0..12 {
                    let mut n = [0; 3];
                    for j in 0..12 {
                        if i == j {
                            continue;
                        }
                        evals += 1;
                        let a = rg::ang(centres[i], centres[j]);
                        if (a - ring).abs() < 1e-9 {
                            n[0] += 1;
                        } else if (a - (rg::PI - ring)).abs() < 1e-9 {
                            n[1] += 1;
                        } else if (a - rg::PI).abs() < 1e-9 {
                            n[2] += 1;
                        }
                    }
                    if n != [5, 5, 1] {
                        rep.sink.push(viol("C18/pair-angles", format!("face {}: {} neighbours at 63.435 deg, {} at 116.565 deg, {} antipodal (expected 5/5/1)", i, n[0], n[1], n[2]), json!({"kind": "face", "face": i})));
                    }
                }
            }
        }
        other => rep.sink.push(viol("C18/base-cell-ids", format!("get_res0_cells() = {:?}", other), json!({"kind": "res0"}))),
    }
    // --- nearest-face selection on the sphere lattice
    let n = if tier == "replay-relabel" { 128 } else if tier == "quick" { 131072 } else { 1 << 20 };
    let pts = en::sphere_lonlat(n, tier == "thorough");
    let vs: Vec<Viol> = pts.par_iter().flat_map(|&(lon, lat, _)| check_nearest(&f, lon, lat)).collect();
    rep.sink.extend(vs);
    evals += 3 * pts.len() as u64;
    // the same physical points written with other longitude windings (the selector works on the raw angle):
    // every point on or beside a face edge / vertex / seam, with +-360, +720 and -1080 degrees
    let wound: Vec<(f64, f64)> = pts.iter().filter(|p| p.2 != "uniform").flat_map(|&(lon, lat, _)| [(lon + 360.0, lat), (lon - 360.0, lat), (lon + 720.0, lat), (lon - 1080.0, lat)]).collect();
    let vs: Vec<Viol> = wound.par_iter().flat_map(|&(lon, lat)| check_nearest(&f, lon, lat)).collect();
    rep.sink.extend(vs);
    evals += 3 * wound.len() as u64;
    rep.set("wound_longitude_points", json!(wound.len()));
    // tracks: chains of 9 queries advancing in short steps across each of the 30 face seams (three step
    // sizes, both directions), each chain on one fresh thread, each query judged by the true argmin
    let track_queries;
    {
        let mut chains: Vec<Vec<(f64, f64)>> = Vec::new();
        for m in f.midpoints.iter() {
            let mut cs: Vec<(f64, V3)> = f.centres.iter().map(|c| (rg::ang(*c, *m), *c)).collect();
            cs.sort_by(|a, b| a.0.partial_cmp(&b.0).unwrap());
            let (c1, c2) = (cs[0].1, cs[1].1);
            let nrm = rg::unit(rg::sub(c2, c1));
            let along = rg::unit(rg::cross(*m, nrm));
            for t in [0.0, 0.12, -0.2] {
                let p = rg::unit(rg::add(rg::scale(*m, f64::cos(t)), rg::scale(along, f64::sin(t))));
                for step in [1e-9, 1e-6, 1e-3] {
                    for dir in [1.0, -1.0] {
                        chains.push((0..9).map(|k| rg::vec_to_ll(rg::unit(rg::add(p, rg::scale(nrm, dir * (k as f64 - 4.3) * step))))).collect());
                    }
                }
            }
        }
        track_queries = 9 * chains.len() as u64;
        let vs: Vec<Viol> = chains
            .par_iter()
            .flat_map(|ch| {
                std::thread::scope(|sc| {
                    sc.spawn(|| {
                        let mut out = Vec::new();
                        for &(lon, lat) in ch {
                            let v = check_nearest(&f, lon, lat);
                            if !v.is_empty() {
                                out.extend(v.into_iter().map(|mut x| {
                                    x.what = format!("{} [query of a chain advancing across a seam on one thread]", x.what);
                                    x.case = json!({"kind": "chain", "points": ch.iter().map(|p| vec![p.0, p.1]).collect::<Vec<_>>()});
                                    x
                                }));
                                break;
                            }
                        }
                        out
                    })
                    .join()
                    .unwrap()
                })
            })
            .collect();
        rep.sink.extend(vs.into_iter().take(6).collect::<Vec<_>>());
        evals += 3 * track_queries;
    }
    rep.set("seam_track_queries", json!(track_queries));
    let hard = pts.iter().filter(|p| p.2 != "uniform").count() as u64;
    // --- relabelling: 12 faces x 5 quintants / segments
    let origins = a5::core::origin::get_origins();
    for o in origins.iter() {
        let mut segs = Vec::new();
        for q in 0..5usize {
            evals += 1;
            let case = json!({"kind": "relabel", "face": o.id, "quintant": q});
            let r = subj::guard_val(|| {
                let (seg, or1) = a5::core::origin::quintant_to_segment(q, o);
                let (q2, or2) = a5::core::origin::segment_to_quintant(seg, o);
                (seg, format!("{:?}", or1), q2, format!("{:?}", or2))
            });
            match r {
                Ok((seg, or1, q2, or2)) => {
                    segs.push(seg);
                    let want = REF_RELABEL[(o.id as usize) % 12][q];
                    if (seg, or1.as_str()) != want {
                        rep.sink.push(viol("C18/relabel-table", format!("face {}: quintant {} -> (segment {}, {}), the documented layout has (segment {}, {})", o.id, q, seg, or1, want.0, want.1), case.clone()));
                    }
                    if q2 != q {
                        rep.sink.push(viol("C18/relabel-bijection", format!("face {}: quintant {} -> segment {} -> quintant {}", o.id, q, seg, q2), case.clone()));
                    }
                    if or1 != or2 {
                        rep.sink.push(viol("C18/relabel-orientation", format!("face {}: quintant {} -> ({}, {}) but segment {} -> ({}, {})", o.id, q, seg, or1, seg, q2, or2), case.clone()));
                    }
                    if seg > 4 {
                        rep.sink.push(viol("C18/relabel-range", format!("face {}: quintant {} -> segment {}", o.id, q, seg), case));
                    }
                }
                Err(e) => rep.sink.push(viol("C18/relabel-error", e, case)),
            }
        }
        segs.sort_unstable();
        if segs != vec![0, 1, 2, 3, 4] {
            rep.sink.push(viol("C18/relabel-bijection", format!("face {}: quintant -> segment is not a permutation of 0..4: {:?}", o.id, segs), json!({"kind": "face", "face": o.id})));
        }
        let mut qs = Vec::new();
        for s in 0..5usize {
            evals += 1;
            if let Ok((q, _)) = subj::guard_val(|| a5::core::origin::segment_to_quintant(s, o)) {
                qs.push(q);
                let back = subj::guard_val(|| a5::core::origin::quintant_to_segment(q, o).0);
                if back != Ok(s) {
                    rep.sink.push(viol("C18/relabel-bijection", format!("face {}: segment {} -> quintant {} -> segment {:?}", o.id, s, q, back), json!({"kind": "relabel", "face": o.id, "segment": s})));
                }
            }
        }
        qs.sort_unstable();
        if qs != vec![0, 1, 2, 3, 4] {
            rep.sink.push(viol("C18/relabel-bijection", format!("face {}: segment -> quintant is not a permutation of 0..4: {:?}", o.id, qs), json!({"kind": "face", "face": o.id})));
        }
    }
    // --- the relabelling is a function of the face, not of the Origin value's identity: owned copies
    // (clones, dropped and re-created so that the allocator reuses their storage) of every ordered pair
    // of faces, one after the other, must relabel exactly like the static table entries
    let table = |o: &a5::core::utils::Origin| -> Result<Vec<(usize, String)>, String> {
        subj::guard_val(|| {
            let mut v = Vec::new();
            for q in 0..5usize {
                let (s, o1) = a5::core::origin::quintant_to_segment(q, o);
                v.push((s, format!("{:?}", o1)));
            }
            for sg in 0..5usize {
                let (q, o2) = a5::core::origin::segment_to_quintant(sg, o);
                v.push((q, format!("{:?}", o2)));
            }
            v
        })
    };
    let statics: Vec<Result<Vec<(usize, String)>, String>> = origins.iter().map(|o| table(o)).collect();
    let mut clone_pairs = 0u64;
    for i in 0..origins.len() {
        for j in 0..origins.len() {
            clone_pairs += 1;
            let first = {
                let a = origins[i].clone();
                table(&a)
            };
            let second = {
                let b = origins[j].clone();
                table(&b)
            };
            // and a value that outlives the next call
            let keep = origins[i].clone();
            let third = {
                let c = origins[j].clone();
                table(&c)
            };
            drop(keep);
            for (which, got, face) in [("first", &first, i), ("second", &second, j), ("third", &third, j)] {
                if *got != statics[face] {
                    rep.sink.push(viol(
                        "C18/relabel-depends-on-history",
                        format!("an owned copy of face {} relabels as {:?} ({} of the pair (face {}, face {})), the static table entry as {:?}", face, got, which, i, j, statics[face]),
                        json!({"kind": "clone-pair", "first": i, "second": j}),
                    ));
                }
            }
        }
    }
    evals += clone_pairs * 30;
    rep.set("owned_copy_face_pairs", json!(clone_pairs));
    rep.set("evaluations", json!(evals));
    rep.set("distinct_nontrivial", json!(hard + 66 + 120));
    rep.set("rule", json!("12 base cells vs an independent regular dodecahedron (face 0 on the north pole, ring at colatitude atan 2, 93 deg offset, documented numbering); all 66 face pairs; nearest-face choice (lookup at r=0, r=1 and the internal selector) vs true angular argmin (ties within 1e-9 rad accepted) on the sphere lattice; all 12x5 quintant<->segment relabellings both ways, and again through owned copies of every ordered pair of faces; distinct_nontrivial = lattice points on frame vertices/edges/seams/caps + pairs + relabellings"));
    rep.set("exhaustive", json!(true));
    rep.set("exhaustive_scope", json!("all 66 pairs, all 60 relabellings, every lattice point (continuum not covered between lattice points)"));
    rep.sample(json!({"lonlat": [pts[100].0, pts[100].1], "tag": pts[100].2}));
    rep.sample(json!({"reference_face_centres_lonlat": (0..12).map(|k| rg::vec_to_ll(f.centres[k])).collect::<Vec<_>>()}));
    rep.assume("verdict for nearest-face selection holds on the lattice only");
    rep
}

// ---------------------------------------------------------------------------------------- C19

fn fwd(phi: f64) -> f64 {
    AuthalicProjection.forward(Radians::new_unchecked(phi)).get()
}
fn inv(phi: f64) -> f64 {
    AuthalicProjection.inverse(Radians::new_unchecked(phi)).get()
}


/// One call sequence over {forward(x), inverse(x), forward(-x), inverse(-x)} on the calling thread; every
/// result is judged on its own by the closed form (never by an earlier result of the subject): the two
/// conversions take the same kind of argument, so a caller can hand both the same bits in a row.
fn same_argument_sequence(x: f64, seq: &[usize]) -> Option<(usize, String)> {
    for (i, &op) in seq.iter().enumerate() {
        let a = if op >= 2 { -x } else { x };
        let (name, y) = if op % 2 == 0 { ("forward", fwd(a)) } else { ("inverse", inv(a)) };
        let e = if op % 2 == 0 { (y - rg::authalic_lat_closed_form(a)).abs() } else { (rg::authalic_lat_closed_form(y) - a).abs() };
        if !(e <= 1e-11) {
            return Some((i, format!("{}({}) = {} is off by {:.3e} rad (closed-form WGS84 authalic latitude)", name, a, y, e)));
        }
    }
    None
}
const SEQ_OPS: [&str; 4] = ["forward(x)", "inverse(x)", "forward(-x)", "inverse(-x)"];

pub fn run_c19(tier: &str) -> Report {
    let mut rep = Report::new("exploration");
    let bits = if tier == "quick" { 22 } else { 24 };
    let n: u64 = 1 << bits;
    let half = rg::PI / 2.0;
    let worst = Mutex::new([0.0f64; 3]);
    let lat_of = |i: u64| -half + i as f64 * rg::PI / n as f64;
    let vs: Vec<Viol> = (0..=n)
        .into_par_iter()
        .flat_map(|i| {
            let mut out = Vec::new();
            let phi = lat_of(i).clamp(-half, half);
            let case = json!({"kind": "lat", "phi": phi});
            let r = subj::guard_val(|| (fwd(phi), inv(fwd(phi)), fwd(-phi)));
            let (b, back, bneg) = match r {
                Ok(x) => x,
                Err(e) => return vec![viol("C19/panic", e, case)],
            };
            let e = (back - phi).abs();
            let cf = if phi.abs() <= 89.0 * rg::DEG { (b - rg::authalic_lat_closed_form(phi)).abs() } else { 0.0 };
            {
                let mut g = worst.lock().unwrap();
                g[0] = g[0].max(e);
                g[1] = g[1].max(cf);
            }
            if !(e <= 1e-12) {
                out.push(viol("C19/roundtrip", format!("inverse(forward({})) differs by {:.3e}", phi, e), case.clone()));
            }
            if !(cf <= 1e-11) {
                out.push(viol("C19/closed-form", format!("forward({}) = {} differs from the closed-form WGS84 authalic latitude by {:.3e}", phi, b, cf), case.clone()));
            }
            // oddness within 1 ulp
            let odd = (b + bneg).abs();
            if !(odd <= 1e-15) {
                out.push(viol("C19/odd", format!("forward(-phi) + forward(phi) = {:.3e} at phi = {}", b + bneg, phi), case.clone()));
            }
            // strictly increasing on adjacent grid points
            if i < n {
                let phi2 = lat_of(i + 1).clamp(-half, half);
                if let Ok(b2) = subj::guard_val(|| fwd(phi2)) {
                    if !(b2 > b) {
                        out.push(viol("C19/monotone", format!("forward({}) = {} is not above forward({}) = {}", phi2, b2, phi, b), case.clone()));
                    }
                }
                // agreement with the quadrature reference (accurate at the poles too)
                let q = (b - rg::authalic_lat(phi)).abs();
                let mut g = worst.lock().unwrap();
                g[2] = g[2].max(q);
            }
            out
        })
        .collect();
    rep.sink.extend(vs);
    let mut evals = n + 1;
    // fixed points and ulp neighbourhoods
    let mut specials: Vec<f64> = vec![0.0, half, -half];
    for c in [0.0, half, -half] {
        let mut x: f64 = c;
        let mut y: f64 = c;
        for _ in 0..4 {
            x = x.next_down();
            y = y.next_up();
            if x.abs() <= half {
                specials.push(x);
            }
            if y.abs() <= half {
                specials.push(y);
            }
        }
    }
    for d in -90..=90 {
        specials.push((d as f64 * rg::DEG).clamp(-half, half));
    }
    for &phi in &specials {
        evals += 1;
        let case = json!({"kind": "lat", "phi": phi});
        let b = fwd(phi);
        if phi == 0.0 && b != 0.0 {
            rep.sink.push(viol("C19/fixes-equator", format!("forward(0) = {}", b), case.clone()));
        }
        if phi.abs() == half && !((b - phi).abs() <= 1e-12) {
            rep.sink.push(viol("C19/fixes-poles", format!("forward({}) = {}", phi, b), case.clone()));
        }
        if !((inv(b) - phi).abs() <= 1e-12) {
            rep.sink.push(viol("C19/roundtrip", format!("inverse(forward({})) = {}", phi, inv(b)), case.clone()));
        }
        if !((fwd(inv(phi)) - phi).abs() <= 1e-12) {
            rep.sink.push(viol("C19/roundtrip", format!("forward(inverse({})) = {}", phi, fwd(inv(phi))), case));
        }
    }
    // lon/lat <-> sphere round trip as physical points
    let mut ll: Vec<(f64, f64)> = Vec::new();
    let mut lon = -540.0;
    while lon <= 540.0 {
        for k in 0..=180 {
            ll.push((lon, -90.0 + k as f64));
        }
        lon += 7.5;
    }
    for (lon, lat, _) in en::caps_lonlat().into_iter().chain(en::merid_lonlat()) {
        ll.push((lon, lat));
    }
    let worst_ll = Mutex::new(0.0f64);
    let vs: Vec<Viol> = ll
        .par_iter()
        .flat_map(|&(lon, lat)| {
            let case = json!({"kind": "lonlat", "lon": lon, "lat": lat});
            let r = subj::from_lonlat(lon, lat).and_then(|v| subj::to_lonlat(v).map(|b| (v, b)));
            match r {
                Ok((v, (lon2, lat2))) => {
                    let mut out = Vec::new();
                    // (a) same physical point after the round trip, judged by the reference conversion
                    let e = rg::ang(rg::ll_to_vec(lon, lat), rg::ll_to_vec(lon2, lat2));
                    // (b) the internal sphere point is where the reference puts it
                    let e2 = rg::ang(v, rg::ll_to_vec(lon, lat));
                    {
                        let mut g = worst_ll.lock().unwrap();
                        *g = g.max(e).max(e2);
                    }
                    if !(e <= 1e-12) {
                        out.push(viol("C19/lonlat-roundtrip", format!("to_lon_lat(from_lon_lat(p)) = ({}, {}), {:.3e} rad away", lon2, lat2, e), case.clone()));
                    }
                    if !(e2 <= 1e-11) {
                        out.push(viol("C19/lonlat-sphere", format!("internal sphere point is {:.3e} rad from the reference authalic position", e2), case));
                    }
                    out
                }
                Err(e) => vec![viol("C19/panic", e, case)],
            }
        })
        .collect();
    rep.sink.extend(vs);
    evals += ll.len() as u64;
    // latitude ladders: from_lon_lat at one rung followed, on the same thread, by to_lon_lat of the
    // sphere point of every other rung (all ordered pairs): a remembered correction must not be reused
    let mut ladder_pairs = 0u64;
    {
        let deltas: Vec<f64> = {
            let mut d = vec![0.0];
            for e in [1e-12, 1e-11, 1e-10, 3e-10, 1e-9, 3e-9, 9e-9, 1.1e-8, 1e-7, 1e-6, 1e-4] {
                d.push(e);
                d.push(-e);
            }
            d
        };
        let bases: &[f64] = if tier == "quick" { &[10.0, -33.0, 62.0, 88.0] } else { &[0.5, 10.0, -33.0, 44.99, 62.0, -75.0, 88.0, 89.9] };
        let vs: Vec<Viol> = bases
            .par_iter()
            .flat_map(|&b| {
                let mut out = Vec::new();
                let lon = 17.25;
                let lats: Vec<f64> = deltas.iter().map(|d| b + d / rg::DEG).collect();
                // sphere points of the rungs by the reference conversion (independent of the subject's state)
                let pts: Vec<V3> = lats.iter().map(|&la| rg::ll_to_vec(lon, la)).collect();
                for (j, &lj) in lats.iter().enumerate() {
                    for (k, &lk) in lats.iter().enumerate() {
                        let r = subj::from_lonlat(lon, lj).and_then(|_| subj::to_lonlat(pts[k]));
                        match r {
                            Ok((lon2, lat2)) => {
                                let e = rg::ang(rg::ll_to_vec(lon2, lat2), rg::ll_to_vec(lon, lk));
                                if !(e <= 1e-11) {
                                    out.push(viol(
                                        "C19/lonlat-after-neighbour",
                                        format!("to_lon_lat of the sphere point of latitude {} gives ({}, {}), {:.3e} rad away, right after from_lon_lat at latitude {}", lk, lon2, lat2, e, lj),
                                        json!({"kind": "ladder", "lon": lon, "first_lat": lj, "second_lat": lk, "j": j, "k": k}),
                                    ));
                                }
                            }
                            Err(e) => out.push(viol("C19/panic", e, json!({"kind": "ladder", "lon": lon, "first_lat": lj, "second_lat": lk}))),
                        }
                    }
                }
                out
            })
            .collect();
        rep.sink.extend(vs);
        ladder_pairs += (bases.len() * deltas.len() * deltas.len()) as u64;
    }
    evals += ladder_pairs;
    rep.set("latitude_ladder_ordered_pairs", json!(ladder_pairs));
    // same-argument sequences: all 64 triples over {forward(x), inverse(x), forward(-x), inverse(-x)} for every
    // x of a latitude grid (|x| <= 88 deg), each grid chunk on its own fresh thread
    {
        let steps: i64 = if tier == "quick" { 2000 } else { 40000 };
        let xs: Vec<f64> = (-steps..=steps).map(|k| 88.0 * rg::DEG * k as f64 / steps as f64).chain([0.9, 0.5, 1e-9, 1.0e-3, 0.7853981633974483]).collect();
        let triples: Vec<[usize; 3]> = (0..4).flat_map(|a| (0..4).flat_map(move |b| (0..4).map(move |c| [a, b, c]))).collect();
        let chunks: Vec<&[f64]> = xs.chunks(256).collect();
        let vs: Vec<Viol> = chunks
            .par_iter()
            .flat_map(|ch| {
                let triples = &triples;
                std::thread::scope(|sc| {
                    sc.spawn(move || {
                        for &x in ch.iter() {
                            for t in triples.iter() {
                                if let Some((i, why)) = same_argument_sequence(x, t) {
                                    return vec![viol(
                                        "C19/after-same-argument",
                                        format!("call #{} of the sequence [{}, {}, {}] with x = {}: {}", i + 1, SEQ_OPS[t[0]], SEQ_OPS[t[1]], SEQ_OPS[t[2]], x, why),
                                        json!({"kind": "same_argument", "x": x, "seq": t.to_vec()}),
                                    )];
                                }
                            }
                        }
                        vec![]
                    })
                    .join()
                    .unwrap_or_default()
                })
            })
            .collect();
        rep.sink.extend(vs);
        evals += (xs.len() * 64 * 3) as u64;
        rep.set("same_argument_sequences", json!({"latitudes": xs.len(), "sequences_per_latitude": 64, "alphabet": SEQ_OPS}));
    }
    // second-difference sweeps of both conversions over the whole latitude range in equal steps: a jump
    // of either function (a branch, a band with its own formula) of more than 1e-12 rad shows as its size
    {
        let h: f64 = if tier == "quick" { 1e-7 } else { 1e-8 };
        let nsteps = (rg::PI / h).floor() as u64;
        let chunk = 1u64 << 18;
        let starts: Vec<u64> = (0..nsteps).step_by(chunk as usize).collect();
        let res: Vec<(f64, Option<Viol>)> = starts
            .par_iter()
            .map(|&c0| {
                let c1 = (c0 + chunk).min(nsteps);
                let mut worst = 0.0f64;
                for (name, f) in [("forward", fwd as fn(f64) -> f64), ("inverse", inv as fn(f64) -> f64)] {
                    let mut prev: Option<f64> = None;
                    let mut prev_d: Option<f64> = None;
                    for i in c0.saturating_sub(2)..=c1 {
                        let x = (-half + i as f64 * h).clamp(-half, half);
                        let y = f(x);
                        if let Some(p) = prev {
                            let d = y - p;
                            if let Some(pd) = prev_d {
                                let dd = (d - pd).abs();
                                worst = worst.max(dd);
                                if !(dd <= 1e-12) {
                                    return (worst, Some(viol("C19/discontinuity", format!("authalic {} jumps by {:.3e} rad at latitude {} rad (steps of {:.0e})", name, dd, x, h), json!({"kind": "lat", "phi": x, "sweep": name, "h": h}))));
                                }
                            }
                            prev_d = Some(d);
                        }
                        prev = Some(y);
                    }
                }
                (worst, None)
            })
            .collect();
        let mut worst_dd = 0.0f64;
        for (wv, v) in res {
            worst_dd = worst_dd.max(wv);
            if let Some(v) = v {
                rep.sink.push(v);
                break;
            }
        }
        evals += 2 * nsteps;
        rep.set("continuity_sweep", json!({"step_rad": h, "steps_per_function": nsteps, "worst_second_difference": worst_dd, "tolerance": 1e-12}));
    }
    let w = worst.lock().unwrap();
    rep.set("evaluations", json!(evals));
    rep.set("distinct_nontrivial", json!(n + 1));
    rep.set("rule", json!(format!("latitudes -pi/2 + i pi/2^{} for all i (round trip, closed form for |lat|<=89 deg, oddness, strict monotonicity on adjacent points) + ulp neighbourhoods of 0 and +-pi/2 + integer degrees; lon in [-540,540] step 7.5 x 181 latitudes + caps + antimeridian for the lon/lat <-> sphere round trip; distinct_nontrivial = distinct grid latitudes", bits)));
    rep.set("exhaustive", json!(true));
    rep.set("exhaustive_scope", json!("every point of the stated grids (the latitude interval is a continuum; monotonicity is verified between adjacent grid points only)"));
    rep.set("worst_roundtrip_rad", json!(w[0]));
    rep.set("worst_vs_closed_form_rad", json!(w[1]));
    rep.set("worst_vs_quadrature_rad", json!(w[2]));
    rep.set("worst_lonlat_roundtrip_rad", json!(*worst_ll.lock().unwrap()));
    rep.sample(json!({"phi": lat_of(n / 3)}));
    rep.sample(json!({"lonlat": [ll[1000].0, ll[1000].1]}));
    rep.assume("closed-form reference: Snyder's q-function for WGS84 (f = 1/298.257223563); polar reference: Gauss-Legendre quadrature of the ellipsoidal cap area");
    rep
}

pub fn replay_c18(case: &Value) -> Vec<Viol> {
    if case["kind"] == "lonlat" {
        return check_nearest(&rg::frame(), case["lon"].as_f64().unwrap(), case["lat"].as_f64().unwrap());
    }
    if case["kind"] == "chain" {
        let pts: Vec<(f64, f64)> = case["points"].as_array().map(|a| a.iter().filter_map(|p| Some((p[0].as_f64()?, p[1].as_f64()?))).collect()).unwrap_or_default();
        return std::thread::spawn(move || {
            let f = rg::frame();
            for (lon, lat) in pts {
                let v = check_nearest(&f, lon, lat);
                if !v.is_empty() {
                    return v;
                }
            }
            vec![]
        })
        .join()
        .unwrap_or_default();
    }
    // relabelling cases: the whole (small) family is re-run and filtered by class
    let rep = run_c18("replay-relabel");
    let (v, _) = rep.sink.drain();
    v.into_iter().filter(|x| x.class.starts_with("C18/relabel")).collect()
}

pub fn replay_c19(case: &Value) -> Vec<Viol> {
    let mut out = Vec::new();
    match case["kind"].as_str() {
        Some("same_argument") => {
            let x = case["x"].as_f64().unwrap();
            let sq: Vec<usize> = case["seq"].as_array().map(|a| a.iter().filter_map(|v| v.as_u64().map(|u| u as usize % 4)).collect()).unwrap_or_default();
            let c2 = case.clone();
            let r = std::thread::spawn(move || same_argument_sequence(x, &sq)).join().unwrap_or(None);
            if let Some((i, why)) = r {
                out.push(viol("C19/after-same-argument", format!("call #{}: {}", i + 1, why), c2));
            }
        }
        Some("ladder") => {
            let (lon, lj, lk) = (case["lon"].as_f64().unwrap(), case["first_lat"].as_f64().unwrap(), case["second_lat"].as_f64().unwrap());
            let r = subj::from_lonlat(lon, lj).and_then(|_| subj::to_lonlat(rg::ll_to_vec(lon, lk)));
            match r {
                Ok((lon2, lat2)) => {
                    let e = rg::ang(rg::ll_to_vec(lon2, lat2), rg::ll_to_vec(lon, lk));
                    if !(e <= 1e-11) {
                        out.push(viol("C19/lonlat-after-neighbour", format!("to_lon_lat is {:.3e} rad off right after from_lon_lat at latitude {}", e, lj), case.clone()));
                    }
                }
                Err(e) => out.push(viol("C19/panic", e, case.clone())),
            }
        }
        Some("lat") if case["sweep"].is_string() => {
            let phi = case["phi"].as_f64().unwrap();
            let h = case["h"].as_f64().unwrap_or(1e-7);
            let f: fn(f64) -> f64 = if case["sweep"] == "forward" { fwd } else { inv };
            let half = rg::PI / 2.0;
            let mut prev: Option<f64> = None;
            let mut prev_d: Option<f64> = None;
            for k in -2000i64..=2000 {
                let x = (phi + k as f64 * h).clamp(-half, half);
                let y = f(x);
                if let Some(p) = prev {
                    let d = y - p;
                    if let Some(pd) = prev_d {
                        if !((d - pd).abs() <= 1e-12) && x.abs() < half {
                            out.push(viol("C19/discontinuity", format!("jump of {:.3e} rad at latitude {}", (d - pd).abs(), x), case.clone()));
                            break;
                        }
                    }
                    prev_d = Some(d);
                }
                prev = Some(y);
            }
        }
        Some("lat") => {
            let phi = case["phi"].as_f64().unwrap();
            let e = (inv(fwd(phi)) - phi).abs();
            if !(e <= 1e-12) {
                out.push(viol("C19/roundtrip", format!("inverse(forward({})) differs by {:.3e}", phi, e), case.clone()));
            }
            if phi.abs() <= 89.0 * rg::DEG && !((fwd(phi) - rg::authalic_lat_closed_form(phi)).abs() <= 1e-11) {
                out.push(viol("C19/closed-form", format!("forward({}) = {}", phi, fwd(phi)), case.clone()));
            }
            if !((fwd(phi) + fwd(-phi)).abs() <= 1e-15) {
                out.push(viol("C19/odd", format!("forward is not odd at {}", phi), case.clone()));
            }
        }
        Some("lonlat") => {
            let (lon, lat) = (case["lon"].as_f64().unwrap(), case["lat"].as_f64().unwrap());
            match subj::from_lonlat(lon, lat).and_then(|v| subj::to_lonlat(v).map(|b| (v, b))) {
                Ok((v, (lon2, lat2))) => {
                    let e = rg::ang(rg::ll_to_vec(lon, lat), rg::ll_to_vec(lon2, lat2));
                    let e2 = rg::ang(v, rg::ll_to_vec(lon, lat));
                    if !(e <= 1e-12) {
                        out.push(viol("C19/lonlat-roundtrip", format!("{:.3e} rad away", e), case.clone()));
                    }
                    if !(e2 <= 1e-11) {
                        out.push(viol("C19/lonlat-sphere", format!("{:.3e} rad from the reference", e2), case.clone()));
                    }
                }
                Err(e) => out.push(viol("C19/panic", e, case.clone())),
            }
        }
        _ => {}
    }
    out
}
