//! Inputs beyond the bounds of the set machine and of the tree BFS, enumerated from structured
//! families instead of from all subsets: long lists (lengths around 2^8, 2^9, 2^10, 2^12), runs of
//! consecutive cells with every interesting alignment, mixed-resolution descriptions of one region,
//! cells whose curve offsets alias a sibling group modulo 4^k (2^8, 2^16, 2^32 included), lists with
//! repeats, fan-outs above 4^8, and calls that follow a refused call on the same thread.
//! The oracles are the ones of the set machine (RefCompact / RefTree); every family is a finite,
//! fully enumerated set of inputs.
use crate::checks::sets::{oracle_c08, oracle_c09, oracle_c10};
use crate::ev::{viol, Viol};
use crate::refcodec as rc;
use crate::subj;
use rayon::prelude::*;
use serde_json::json;
use std::collections::HashSet;

fn under(c: u64, path: &[usize]) -> u64 {
    let mut x = c;
    for &d in path {
        let ch = rc::children(x);
        x = ch[d % ch.len()];
    }
    x
}

/// roots of the leaf universes: (name, root, depth)
pub fn roots(tier: &str) -> Vec<(String, u64, i32)> {
    let base = rc::all_cells(0);
    let q = rc::children(base[6]);
    let r2 = under(q[3], &[2]);
    let mut v = vec![("r=2 cell, leaves at r=8 (4096)".to_string(), r2, 6)];
    if tier != "quick" {
        let deep = under(rc::children(base[9])[1], &[1, 3, 0, 2, 2, 1, 0, 3, 3, 1, 2, 0, 1, 1, 3, 2, 0, 0, 1, 3, 2, 2]);
        assert_eq!(rc::resolution(deep), Some(23));
        v.push(("r=23 cell, leaves at r=29 (4096)".to_string(), deep, 6));
        v.push(("quintant, leaves at r=7 (4096)".to_string(), rc::children(base[2])[4], 6));
        v.push(("base cell, leaves at r=5 (1280)".to_string(), base[11], 5));
    }
    v
}

pub fn leaves(root: u64, depth: i32) -> Vec<u64> {
    let mut l = rc::descendants(root, rc::resolution(root).unwrap() + depth);
    l.sort_unstable();
    l
}

/// run boundaries: everything around the powers of 4 and of 2 that a block-wise or word-wise
/// shortcut could use, plus small multiples of 4 (alignments of a first child)
pub fn endpoints(n: usize, tier: &str) -> Vec<usize> {
    let mut e: Vec<usize> = vec![0, 1, 2, 3, 4, 5, 7, 8, 12, 16, 17, 20, 24, 28, 32, 48, 60, 63, 64, 65, 128, 192, 252, 255, 256, 257, 260, 264, 320, 511, 512, 513, 768, 1020, 1023, 1024, 1025, 1028, 1032, 1088, 1280, 2047, 2048, 2049, 3072];
    if tier != "quick" {
        e.extend([6, 9, 15, 36, 40, 44, 52, 56, 68, 127, 129, 191, 193, 254, 258, 272, 384, 516, 640, 1019, 1021, 1027, 1040, 1152, 1536, 2052, 2304, 3071, 3073, 3584]);
    }
    for d in [0usize, 1, 2, 3, 4, 5, 64, 256] {
        if n >= d {
            e.push(n - d);
        }
    }
    e.retain(|&x| x <= n);
    e.sort_unstable();
    e.dedup();
    e
}

/// mixed-resolution description of the run `run` (ascending leaves): complete blocks k levels up whose
/// running index has the given parity are replaced by their ancestor
fn mixed(run: &[u64], k: i32, parity: usize) -> Vec<u64> {
    let r = rc::resolution(run[0]).unwrap();
    if r - k < 0 {
        return run.to_vec();
    }
    let mut out = Vec::with_capacity(run.len());
    let mut i = 0usize;
    let mut idx = 0usize;
    while i < run.len() {
        let a = rc::ancestor(run[i], r - k).unwrap();
        let mut j = i;
        while j < run.len() && rc::ancestor(run[j], r - k) == Some(a) {
            j += 1;
        }
        let full = (j - i) as u128 == rc::fanout(r - k, r);
        if full && idx % 2 == parity {
            out.push(a);
        } else {
            out.extend_from_slice(&run[i..j]);
        }
        if full {
            idx += 1;
        }
        i = j;
    }
    out
}

/// every description (form) of the run that the checks use; overlap = true adds forms in which a
/// region is described twice (ancestor and its complete set of descendants)
fn forms(run: &[u64], overlap: bool) -> Vec<(String, Vec<u64>)> {
    let mut f = vec![("leaves".to_string(), run.to_vec())];
    for k in [1, 2, 3, 5] {
        for parity in [0usize, 1] {
            let m = mixed(run, k, parity);
            if m.len() != run.len() {
                f.push((format!("blocks {} levels up, parity {}", k, parity), m));
            }
        }
    }
    if overlap {
        for k in [1, 2] {
            let m = mixed(run, k, 0);
            if m.len() != run.len() {
                let mut v: Vec<u64> = run.to_vec();
                v.extend(m.iter().copied().filter(|c| rc::resolution(*c) != rc::resolution(run[0])));
                v.sort_unstable();
                f.push((format!("leaves + ancestors {} levels up of every other complete block", k), v));
            }
        }
    }
    f
}

/// C08 / C10 on all runs [a, b) of the leaf universes with a, b from `endpoints`, in every form.
/// Returns (inputs evaluated, longest input, violations).
pub fn compact_runs(prop: u8, tier: &str) -> (u64, usize, Vec<Viol>) {
    let mut n = 0u64;
    let mut longest = 0usize;
    let mut out = Vec::new();
    for (_name, root, depth) in roots(tier) {
        let l = leaves(root, depth);
        let e = endpoints(l.len(), tier);
        let mut pairs = Vec::new();
        for (i, &a) in e.iter().enumerate() {
            for &b in &e[i + 1..] {
                pairs.push((a, b));
            }
        }
        let res: Vec<(u64, usize, Vec<Viol>)> = pairs
            .par_iter()
            .map(|&(a, b)| {
                let run = &l[a..b];
                let mut cnt = 0u64;
                let mut lg = 0usize;
                let mut vs = Vec::new();
                for (_form, input) in forms(run, prop == 8) {
                    cnt += 1;
                    lg = lg.max(input.len());
                    let v = if prop == 8 { oracle_c08(&input, false) } else { oracle_c10(&input) };
                    if !v.is_empty() {
                        vs.extend(v);
                        break;
                    }
                }
                (cnt, lg, vs)
            })
            .collect();
        for (c, lg, v) in res {
            n += c;
            longest = longest.max(lg);
            out.extend(v);
        }
    }
    // one universe of 4^8 leaves (lists of up to 65 536 + cells): few runs, all forms
    {
        let base = rc::all_cells(0);
        let root = under(rc::children(base[10])[1], &[2]);
        let l = leaves(root, 8);
        let e: Vec<usize> = if tier == "quick" { vec![0, 1, 4, 32768, 65535, 65536] } else { vec![0, 1, 3, 4, 16, 255, 256, 1024, 4095, 4096, 16384, 32767, 32768, 49152, 65280, 65532, 65535, 65536] };
        let mut pairs = Vec::new();
        for (i, &a) in e.iter().enumerate() {
            for &b in &e[i + 1..] {
                if b - a >= 16000 {
                    pairs.push((a, b));
                }
            }
        }
        let res: Vec<(u64, usize, Vec<Viol>)> = pairs
            .par_iter()
            .map(|&(a, b)| {
                let run = &l[a..b];
                let mut cnt = 0u64;
                let mut lg = 0usize;
                let mut vs = Vec::new();
                for (_form, input) in forms(run, prop == 8) {
                    cnt += 1;
                    lg = lg.max(input.len());
                    let v = if prop == 8 { oracle_c08(&input, false) } else { oracle_c10(&input) };
                    if !v.is_empty() {
                        vs.extend(v);
                        break;
                    }
                }
                (cnt, lg, vs)
            })
            .collect();
        for (c, lg, v) in res {
            n += c;
            longest = longest.max(lg);
            out.extend(v);
        }
    }
    (n, longest, out)
}

/// the long inputs as plain lists (for C14: every output id must be canonical), a thinner selection
pub fn compact_inputs_for_totality(tier: &str) -> Vec<Vec<u64>> {
    let mut out = Vec::new();
    let (_n, root, depth) = roots("quick").remove(0);
    let l = leaves(root, depth);
    let starts: Vec<usize> = if tier == "quick" { vec![0, 1, 3, 4, 17, 63, 64, 255, 256] } else { (0..=64).chain([127, 128, 255, 256, 257, 1023, 1024]).collect() };
    for &a in &starts {
        for len in [255usize, 256, 257, 511, 512, 1023, 1024, 1025, 2048] {
            if a + len <= l.len() {
                out.push(l[a..a + len].to_vec());
            }
        }
    }
    out
}

/// sets whose offsets along the curve alias a sibling group modulo K = m * 4^k: the first child c of a
/// group and, for j = 1..3, position j of either the same group or the group K positions later.
/// None of them contains a complete group, so compact must return the set itself.
pub fn alias_sets(tier: &str) -> Vec<Vec<u64>> {
    let base = rc::all_cells(0);
    let mut out = Vec::new();
    let ress: &[i32] = if tier == "quick" { &[7, 19, 29] } else { &[4, 6, 7, 10, 13, 17, 19, 23, 29] };
    for &r in ress {
        for (f, q, s0) in [(3usize, 1usize, 0u64), (8, 4, 4 * 5)] {
            let quint = rc::children(base[f])[q];
            let t = rc::decode(quint).unwrap();
            let levels = (r - 1) as u32; // curve digits at resolution r
            let cell = |s: u64| rc::encode(rc::Tuple { face: t.face, quintant: t.quintant, s, res: r });
            for k in 1..levels {
                for m in 1u64..=3 {
                    let kk = m << (2 * k);
                    for pat in 1u8..8 {
                        let mut set = Vec::new();
                        let mut ok = true;
                        for j in 0u64..4 {
                            let shifted = j > 0 && (pat >> (j - 1)) & 1 == 1;
                            let s = s0 + j + if shifted { kk } else { 0 };
                            if levels < 32 && s >> (2 * levels) != 0 {
                                ok = false;
                                break;
                            }
                            match cell(s) {
                                Some(c) => set.push(c),
                                None => {
                                    ok = false;
                                    break;
                                }
                            }
                        }
                        if ok {
                            out.push(set);
                        }
                    }
                }
            }
        }
    }
    out
}

pub fn compact_alias(prop: u8, tier: &str) -> (u64, Vec<Viol>) {
    let sets = alias_sets(tier);
    let n = sets.len() as u64;
    let v: Vec<Viol> = sets
        .par_iter()
        .flat_map(|s| {
            let mut s = s.clone();
            s.sort_unstable();
            if prop == 8 {
                oracle_c08(&s, false)
            } else {
                oracle_c10(&s)
            }
        })
        .collect();
    (n, v)
}

/// Overlapping mixed-resolution sets whose NUMBER of distinct cells coincides with the size of a whole
/// resolution (or of a whole sibling group): all cells of resolution r except k of them, plus k cells of
/// other resolutions placed elsewhere or on top. A shortcut that decides by counting takes them for the
/// complete level.
pub fn cardinality_sets(tier: &str) -> Vec<Vec<u64>> {
    let mut out = Vec::new();
    let base = rc::all_cells(0);
    let rmax = if tier == "quick" { 2 } else { 3 };
    for r in 0..=rmax {
        let all = rc::all_cells(r);
        let n = all.len();
        let omit: Vec<usize> = if n <= 60 { (0..n).collect() } else { (0..n).step_by(if tier == "quick" { 17 } else { 5 }).collect() };
        // replacement cells: coarser cells (any position), finer cells, the world cell
        let mut repl: Vec<u64> = vec![0];
        if r >= 1 {
            repl.extend(base.iter().copied().step_by(3));
        }
        if r >= 2 {
            repl.extend(rc::all_cells(1).into_iter().step_by(7));
        }
        repl.extend(rc::all_cells(r + 1).into_iter().step_by(if r == 0 { 7 } else { 53 }).take(12));
        for &o in &omit {
            for &x in &repl {
                let mut v: Vec<u64> = all.iter().copied().enumerate().filter(|(i, _)| *i != o).map(|(_, c)| c).collect();
                v.push(x);
                out.push(v);
            }
        }
        // two omitted, two added
        if n >= 12 {
            let mut v: Vec<u64> = all.iter().copied().skip(2).collect();
            v.push(repl[0]);
            v.push(*repl.last().unwrap());
            out.push(v);
        }
    }
    // a sibling group with one member replaced by a cell elsewhere (count = group size)
    let q = rc::children(base[3]);
    for g in [rc::children(q[1]), rc::children(rc::children(q[2])[0])] {
        for i in 0..g.len() {
            for x in [q[4], base[9], rc::children(g[(i + 1) % g.len()])[0]] {
                let mut v = g.clone();
                v[i] = x;
                out.push(v);
            }
        }
    }
    out
}

/// The whole sphere minus one cell (or minus two cells), written in its canonical form: at every level
/// from the removed cell up to the base cells, the siblings of the removed cell's ancestor. An antichain
/// without a complete sibling group, so compact must return exactly this set; a "nearly everything"
/// shortcut (by count, by area, by bit mask) takes it for the world.
pub fn complement_sets(tier: &str) -> Vec<Vec<u64>> {
    let mut out = Vec::new();
    let chains = crate::enumerate::fam_chains(2, 29);
    let step = if tier == "quick" { 61 } else { 7 };
    let complement = |c: u64| -> Vec<u64> {
        let mut v = Vec::new();
        let mut x = c;
        while let Some(p) = rc::parent(x) {
            v.extend(rc::children(p).into_iter().filter(|&s| s != x));
            x = p;
        }
        v.sort_unstable();
        v
    };
    for ch in chains.iter().step_by(step) {
        for &c in ch.iter() {
            let r = rc::resolution(c).unwrap();
            if tier == "quick" && !(r <= 3 || r % 3 == 0 || r >= 28) {
                continue;
            }
            out.push(complement(c));
        }
        // minus two cells: a deep one and a coarse one on another face
        let deep = *ch.last().unwrap();
        let other = rc::children(rc::all_cells(0)[((rc::decode(deep).unwrap().face + 5) % 12) as usize])[2];
        let mut v: Vec<u64> = complement(deep).into_iter().filter(|&x| x != other && !rc::is_descendant_or_self(other, x)).collect();
        // re-describe the face that contained `other` without it
        let of = rc::parent(other).unwrap();
        if !v.contains(&of) {
            // `of` was not in the set (it is an ancestor of deep): nothing to do
        } else {
            v.retain(|&x| x != of);
            v.extend(rc::children(of).into_iter().filter(|&x| x != other));
        }
        v.sort_unstable();
        v.dedup();
        if !rc::has_overlap(&v) {
            out.push(v);
        }
    }
    out
}

pub fn compact_complements(prop: u8, tier: &str) -> (u64, Vec<Viol>) {
    let sets = complement_sets(tier);
    let n = sets.len() as u64;
    let v: Vec<Viol> = sets
        .par_iter()
        .flat_map(|s| {
            let v = if prop == 8 { oracle_c08(s, false) } else { oracle_c10(s) };
            v.into_iter().take(1).collect::<Vec<_>>()
        })
        .collect();
    (n, v.into_iter().take(8).collect())
}

pub fn compact_cardinality(tier: &str) -> (u64, Vec<Viol>) {
    let sets = cardinality_sets(tier);
    let n = sets.len() as u64;
    let v: Vec<Viol> = sets
        .par_iter()
        .flat_map(|s| {
            let v = oracle_c08(s, false);
            v.into_iter().take(1).collect::<Vec<_>>()
        })
        .collect();
    (n, v.into_iter().take(8).collect())
}

// ------------------------------------------------------------------------------------ uncompact

fn check_blocks(l: &[u64], t: i32) -> Vec<Viol> {
    let case = json!({"kind": "uncompact", "cells": l.iter().map(|&c| subj::hex(c)).collect::<Vec<_>>(), "target": t});
    let mut out = Vec::new();
    let finer = l.iter().any(|&c| rc::resolution(c).unwrap() > t);
    let r = subj::uncompact(l, t);
    if finer {
        match r {
            Ok(v) => out.push(viol("C09/error-iff-finer", format!("an input is finer than target {} but uncompact returned {} cells", t, v.len()), case)),
            Err(e) if e.starts_with("PANIC") => out.push(viol("C09/panic", e, case)),
            _ => {}
        }
        return out;
    }
    let v = match r {
        Ok(v) => v,
        Err(e) => return vec![viol("C09/error-iff-finer", format!("no input is finer than target {} but uncompact of {} cells failed: {}", t, l.len(), e), case)],
    };
    let total: u128 = l.iter().map(|&c| rc::fanout(rc::resolution(c).unwrap(), t)).sum();
    if v.len() as u128 != total {
        return vec![viol("C09/length", format!("uncompact of {} cells to {} returned {} cells, the hierarchy fan-outs sum to {}", l.len(), t, v.len(), total), case)];
    }
    let mut off = 0usize;
    for (i, &x) in l.iter().enumerate() {
        let k = rc::fanout(rc::resolution(x).unwrap(), t) as usize;
        let block = &v[off..off + k];
        off += k;
        let bad = if k == 1 {
            block[0] != x
        } else {
            let got: HashSet<u64> = block.iter().copied().collect();
            got.len() != k || block.iter().any(|&d| rc::resolution(d) != Some(t) || rc::ancestor(d, rc::resolution(x).unwrap()) != Some(x))
        };
        if bad {
            out.push(viol("C09/block-descendants", format!("outputs for input #{} ({}) at target {} are not exactly its descendants (in input order); list of {} cells", i, subj::hex(x), t, l.len()), case));
            break;
        }
    }
    out
}

/// long mixed-resolution lists: length ladder x position patterns over three pools (cells at the
/// target resolution, one level coarser, two levels coarser)
pub fn uncompact_long(tier: &str) -> (u64, usize, Vec<Viol>) {
    let base = rc::all_cells(0);
    let mut lists: Vec<(Vec<u64>, i32)> = Vec::new();
    let setups: Vec<(u64, i32)> = if tier == "quick" {
        vec![(under(rc::children(base[5])[2], &[1]), 5)]
    } else {
        vec![
            (under(rc::children(base[5])[2], &[1]), 5),
            (under(rc::children(base[10])[0], &[3, 0, 1, 2, 2, 3, 1, 0, 0, 2, 3, 1, 1, 2, 0, 3, 3, 0, 2, 1, 1, 3, 0, 2, 2]), 29),
            (rc::children(base[7])[1], 4),
        ]
    };
    let lens: Vec<usize> = if tier == "quick" { vec![2, 255, 256, 257, 300, 511, 512, 513, 1025] } else { vec![2, 3, 255, 256, 257, 300, 340, 511, 512, 513, 767, 1023, 1024, 1025, 2049, 4097, 16385, 65535, 65537] };
    for (root, t) in setups {
        let r0 = rc::resolution(root).unwrap();
        assert!(t - r0 >= 3);
        let fine = rc::descendants(root, t);
        let mid = rc::descendants(root, t - 1);
        let coarse = rc::descendants(root, t - 2);
        let pools = [&fine, &mid, &coarse];
        for &n in &lens {
            // class of position i: 0 = at the target resolution, 1 = one level coarser, 2 = two levels
            let mut pats: Vec<Box<dyn Fn(usize) -> usize>> = Vec::new();
            for k in [1usize, 40, n / 2] {
                pats.push(Box::new(move |i| if i + k >= n { 1 } else { 0 }));
                pats.push(Box::new(move |i| if i < k { 1 } else { 0 }));
                pats.push(Box::new(move |i| if i + k >= n { 0 } else { 1 }));
                pats.push(Box::new(move |i| if i < k { 2 } else { 0 }));
            }
            for p in [2usize, 3, 256, 257] {
                for q in [0usize, 1] {
                    pats.push(Box::new(move |i| if i % p == q { 1 } else { 0 }));
                    pats.push(Box::new(move |i| if i % p == q { 0 } else { 1 }));
                    pats.push(Box::new(move |i| if i % p == q { 2 } else { 0 }));
                }
            }
            for j in [0usize, 1, 254, 255, 256, 257, 511, 512] {
                if j < n {
                    pats.push(Box::new(move |i| if i == j { 1 } else { 0 }));
                    pats.push(Box::new(move |i| if i == j { 0 } else { 1 }));
                }
            }
            pats.push(Box::new(|_| 0));
            pats.push(Box::new(|_| 1));
            pats.push(Box::new(|i| i % 3));
            for pat in pats {
                let l: Vec<u64> = (0..n)
                    .map(|i| {
                        let pool = pools[pat(i)];
                        pool[(i * 7 + 3) % pool.len()]
                    })
                    .collect();
                lists.push((l, t));
            }
        }
    }
    let n = lists.len() as u64;
    let longest = lists.iter().map(|l| l.0.len()).max().unwrap_or(0);
    let v: Vec<Viol> = lists.par_iter().flat_map(|(l, t)| check_blocks(l, *t)).collect();
    (n, longest, v)
}

/// all lists of length <= 4 over a five-cell alphabet with repeats (two coarse cells, two cells at the
/// target resolution, one cell two levels coarser), and with a sixth finer-than-target cell for length <= 3
pub fn uncompact_repeats(tier: &str) -> (u64, Vec<Viol>) {
    let base = rc::all_cells(0);
    let root = under(rc::children(base[1])[3], &[0, 2]);
    let t = rc::resolution(root).unwrap() + 2;
    let fine = rc::descendants(root, t);
    let mid = rc::descendants(root, t - 1);
    let finer = rc::children(fine[5])[1];
    let alpha = vec![mid[1], mid[2], fine[0], fine[9], root, finer];
    let maxlen = if tier == "quick" { 4 } else { 5 };
    let mut lists: Vec<Vec<u64>> = Vec::new();
    for len in 1..=maxlen {
        let a = if len <= 3 { 6 } else { 5 };
        let total = (a as u64).pow(len as u32);
        for code in 0..total {
            let mut c = code;
            let mut l = Vec::with_capacity(len);
            for _ in 0..len {
                l.push(alpha[(c % a as u64) as usize]);
                c /= a as u64;
            }
            lists.push(l);
        }
    }
    let n = lists.len() as u64;
    let v: Vec<Viol> = lists.par_iter().flat_map(|l| oracle_c09(l, t)).collect();
    (n, v)
}

// ------------------------------------------------------------------------------------ fan-outs

/// cell_to_children with fan-outs above 4^8 per curve cell: exact list against the reference
pub fn big_fanouts(tier: &str) -> (u64, u64, Vec<Viol>) {
    let base = rc::all_cells(0);
    let q = rc::children(base[4])[2];
    let r2 = under(q, &[3]);
    let r5 = under(q, &[1, 0, 2, 3]);
    let r19 = under(q, &[2, 2, 1, 0, 3, 3, 1, 2, 0, 0, 1, 3, 2, 1, 1, 0, 3, 2]);
    let r20 = under(r19, &[1]);
    let mut calls: Vec<(u64, i32)> = vec![(r2, 11), (q, 10), (r20, 29), (r5, 15), (base[4], 9)];
    if tier != "quick" {
        calls.extend([(r2, 12), (r2, 13), (q, 11), (q, 12), (r19, 28), (r19, 29), (r5, 14), (r5, 16), (base[4], 10), (base[9], 10), (0u64, 9), (0u64, 10), (under(q, &[0]), 14)]);
    }
    let mut ids = 0u64;
    let mut out = Vec::new();
    let n = calls.len() as u64;
    for (c, t) in calls {
        let (k, v) = check_fanout(c, t);
        ids += k;
        out.extend(v);
    }
    (n, ids, out)
}

pub fn check_fanout(c: u64, t: i32) -> (u64, Vec<Viol>) {
    let case = json!({"kind": "children", "id": subj::hex(c), "target": t});
    let mut out = Vec::new();
    let mut ids = 0u64;
    match subj::children(c, Some(t)) {
        Ok(mut v) => {
            ids += v.len() as u64;
            let want_n = rc::fanout(rc::resolution(c).unwrap(), t) as usize;
            let len = v.len();
            v.par_sort_unstable();
            let mut distinct = v.clone();
            distinct.dedup();
            let mut want = rc::descendants(c, t);
            want.par_sort_unstable();
            if len != want_n || distinct.len() != len || v != want {
                let foreign = distinct.iter().filter(|x| want.binary_search(x).is_err()).count();
                out.push(viol(
                    "C07/jump",
                    format!("children({}, {}) has {} elements ({} distinct, {} not descendants); the hierarchy dictates {} distinct descendants", subj::hex(c), t, len, distinct.len(), foreign, want_n),
                    case,
                ));
            }
        }
        Err(e) => out.push(viol("C07/jump", format!("children({}, {}) failed: {}", subj::hex(c), t, e), case)),
    }
    (ids, out)
}

/// uncompact with more than 4^8 outputs per input
pub fn big_uncompact(tier: &str) -> (u64, Vec<Viol>) {
    let base = rc::all_cells(0);
    let q = rc::children(base[8])[0];
    let a = under(q, &[1]);
    let b = under(q, &[2, 3]);
    let mut lists: Vec<(Vec<u64>, i32)> = vec![(vec![a, b], 11), (vec![b, a, b], 11)];
    if tier != "quick" {
        lists.extend([(vec![q, a], 10), (vec![a], 12), (vec![base[3], q], 9)]);
    }
    let n = lists.len() as u64;
    let v: Vec<Viol> = lists.iter().flat_map(|(l, t)| check_blocks(l, *t)).collect();
    (n, v)
}

// ------------------------------------------------------------------------------------ refused calls

#[derive(Clone, Debug)]
pub enum Call {
    Children(u64, Option<i32>),
    Parent(u64, Option<i32>),
    Uncompact(Vec<u64>, i32),
    Compact(Vec<u64>),
}
impl Call {
    pub fn to_json(&self) -> serde_json::Value {
        let h = |v: &Vec<u64>| v.iter().map(|&c| subj::hex(c)).collect::<Vec<_>>();
        match self {
            Call::Children(c, r) => json!({"f": "cell_to_children", "id": subj::hex(*c), "res": r}),
            Call::Parent(c, r) => json!({"f": "cell_to_parent", "id": subj::hex(*c), "res": r}),
            Call::Uncompact(l, t) => json!({"f": "uncompact", "cells": h(l), "res": t}),
            Call::Compact(l) => json!({"f": "compact", "cells": h(l)}),
        }
    }
    pub fn from_json(v: &serde_json::Value) -> Option<Call> {
        let id = || v["id"].as_str().and_then(|s| u64::from_str_radix(s, 16).ok());
        let cells = || v["cells"].as_array().map(|a| a.iter().filter_map(|x| x.as_str().and_then(|s| u64::from_str_radix(s, 16).ok())).collect::<Vec<u64>>());
        let res = || v["res"].as_i64().map(|x| x as i32);
        Some(match v["f"].as_str()? {
            "cell_to_children" => Call::Children(id()?, res()),
            "cell_to_parent" => Call::Parent(id()?, res()),
            "uncompact" => Call::Uncompact(cells()?, res()?),
            "compact" => Call::Compact(cells()?),
            _ => return None,
        })
    }
    fn run(&self) -> Result<Vec<u64>, String> {
        match self {
            Call::Children(x, r) => subj::children(*x, *r),
            Call::Parent(x, r) => subj::parent(*x, *r).map(|p| vec![p]),
            Call::Uncompact(l, t) => subj::uncompact(l, *t),
            Call::Compact(l) => subj::compact(l).map(|mut v| {
                v.sort_unstable();
                v
            }),
        }
    }
    fn expect(&self) -> Vec<u64> {
        match self {
            Call::Children(x, r) => rc::descendants(*x, r.unwrap_or(rc::resolution(*x).unwrap() + 1)),
            Call::Parent(x, r) => vec![rc::ancestor(*x, r.unwrap_or(rc::resolution(*x).unwrap() - 1)).unwrap()],
            Call::Uncompact(l, t) => l.iter().flat_map(|&x| rc::descendants(x, *t)).collect(),
            Call::Compact(l) => rc::compact(l),
        }
    }
}

/// one refused call followed by one ordinary call, on the calling thread
pub fn refusal_then(e: &Call, v: &Call) -> Option<Viol> {
    let _ = e.run();
    let got = v.run();
    let mut want = v.expect();
    let mut g = got.clone().unwrap_or_default();
    if matches!(v, Call::Children(..)) {
        g.sort_unstable();
        want.sort_unstable();
    }
    if got.is_err() || g != want {
        return Some(viol(
            "C07/after-refused-call",
            format!("{:?} right after the refused call {:?} returned {} ids (error: {:?}); the hierarchy dictates {} ids", v, e, g.len(), got.as_ref().err(), want.len()),
            json!({"kind": "after-refusal", "refused": e.to_json(), "call": v.to_json()}),
        ));
    }
    None
}

/// Calls that the library refuses, each followed on the same thread by ordinary hierarchy calls whose
/// results are compared with the reference: a refused call must leave nothing behind.
pub fn after_refusal(tier: &str) -> (u64, Vec<Viol>) {
    let base = rc::all_cells(0);
    let q = rc::children(base[7])[3];
    let r2 = under(q, &[1]);
    let r5 = under(q, &[0, 3, 2, 1]);
    let r8 = under(r5, &[1, 1, 2]);
    let r29 = under(r8, &[0, 1, 2, 3, 0, 1, 2, 3, 0, 1, 2, 3, 0, 1, 2, 3, 0, 1, 2, 3, 3]);
    assert_eq!(rc::resolution(r29), Some(29));
    let refused: Vec<Call> = vec![
        Call::Children(0, Some(29)),
        Call::Children(base[2], Some(29)),
        Call::Children(q, Some(29)),
        Call::Children(r2, Some(29)),
        Call::Children(r5, Some(29)),
        Call::Children(r8, Some(29)),
        Call::Children(r5, Some(27)),
        Call::Children(r5, Some(4)),
        Call::Children(r5, Some(30)),
        Call::Children(r29, None),
        Call::Children(1, None),
        Call::Children(u64::MAX, Some(3)),
        Call::Parent(r5, Some(6)),
        Call::Parent(r5, Some(-2)),
        Call::Parent(3, None),
        Call::Uncompact(vec![r5, r8], 6),
        Call::Uncompact(vec![base[1], base[2], r29], 3),
        Call::Uncompact(vec![r2, 7], 4),
        Call::Uncompact(vec![r2], 30),
        Call::Compact(vec![r5, 5, r8]),
        Call::Compact(vec![r2, u64::MAX]),
    ];
    let mut valid: Vec<Call> = Vec::new();
    for &c in &[0u64, base[0], base[7], q, r2, r5, r8] {
        valid.push(Call::Children(c, None));
        let r = rc::resolution(c).unwrap();
        valid.push(Call::Children(c, Some(r + 2)));
        valid.push(Call::Children(c, Some(r)));
        if r >= 0 {
            valid.push(Call::Parent(c, None));
            valid.push(Call::Parent(c, Some((r - 3).max(-1))));
        }
    }
    valid.push(Call::Children(r29, Some(29)));
    valid.push(Call::Parent(r29, Some(11)));
    valid.push(Call::Uncompact(vec![r5, r8, r5], 9));
    valid.push(Call::Uncompact(vec![base[3], q], 2));
    valid.push(Call::Compact(rc::children(r5)));
    valid.push(Call::Compact(rc::all_cells(1)));
    {
        let mut v = rc::children(r8);
        v.extend(rc::children(q).into_iter().skip(1));
        valid.push(Call::Compact(v));
    }
    let rounds = if tier == "quick" { 1 } else { 3 };
    // one fresh OS thread per refused call, so that what one refusal leaves behind cannot be repaired
    // by an earlier sequence on the same thread
    let res: Vec<(u64, Vec<Viol>)> = refused
        .par_iter()
        .map(|e| {
            let e = e.clone();
            let valid = valid.clone();
            std::thread::scope(|sc| {
                sc.spawn(move || {
                    let mut n = 0u64;
                    let mut out = Vec::new();
                    for _ in 0..rounds {
                        for v in &valid {
                            n += 1;
                            out.extend(refusal_then(&e, v));
                        }
                    }
                    (n, out)
                })
                .join()
                .unwrap()
            })
        })
        .collect();
    let mut n = 0;
    let mut out = Vec::new();
    for (c, v) in res {
        n += c;
        out.extend(v);
    }
    (n, out)
}

/// Collision families of hierarchy calls: cells that differ from one another in exactly one component
/// (face, quintant, leading / trailing / middle curve digit), at several resolutions, each with parent
/// calls to several targets and child expansions; ALL ordered pairs of calls run back to back on one
/// fresh thread and every result is compared with the reference hierarchy. A per-thread or process-wide
/// memo whose key drops or truncates any one component makes two of these calls collide.
pub fn collision_calls(r: i32) -> Vec<Call> {
    let levels = (r - 1) as u32;
    let base_s: u64 = 0x2_4924_9249_2492 & ((1u64 << (2 * levels)) - 1).max(1);
    let mut cells: Vec<u64> = Vec::new();
    for face in [2u64, 9] {
        for quintant in [1u64, 3] {
            let mut ss = vec![base_s, base_s ^ 1, base_s ^ (1u64 << (2 * (levels - 1))), base_s ^ (2u64 << (2 * (levels - 1)))];
            if 2 * levels > 33 {
                ss.push(base_s ^ (1u64 << 32));
            }
            if 2 * levels > 24 {
                ss.push(base_s ^ (1u64 << 24));
            }
            for sv in ss {
                if let Some(c) = rc::encode(rc::Tuple { face, quintant, s: sv, res: r }) {
                    cells.push(c);
                }
            }
        }
    }
    cells.sort_unstable();
    cells.dedup();
    let mut calls = Vec::new();
    for &c in &cells {
        for t in [2, r - 12, r - 13, r - 1, 0] {
            if t >= -1 && t < r {
                calls.push(Call::Parent(c, Some(t)));
            }
        }
        calls.push(Call::Parent(c, None));
        if r < 29 {
            calls.push(Call::Children(c, Some(r + 1)));
            calls.push(Call::Children(c, None));
        }
        if r + 2 <= 29 {
            calls.push(Call::Children(c, Some(r + 2)));
        }
    }
    calls
}

fn block_sizes(c: &Call) -> Vec<usize> {
    match c {
        Call::Uncompact(l, t) => l.iter().map(|&x| rc::fanout(rc::resolution(x).unwrap(), *t) as usize).collect(),
        _ => vec![],
    }
}
fn canonical_blocks(c: &Call, mut v: Vec<u64>) -> Vec<u64> {
    let sizes = block_sizes(c);
    if sizes.iter().sum::<usize>() != v.len() {
        return v;
    }
    let mut off = 0;
    for k in sizes {
        v[off..off + k].sort_unstable();
        off += k;
    }
    v
}
fn want_blocks(c: &Call, w: &[u64]) -> Vec<u64> {
    if matches!(c, Call::Uncompact(..)) {
        canonical_blocks(c, w.to_vec())
    } else {
        w.to_vec()
    }
}

/// expansions of the coarsest cells to every small target, through both entry points: many distinct
/// (cell, target) keys, each repeated after every other one (a small cache that evicts or mixes entries
/// once it is full meets every fill order)
pub fn expansion_calls(tier: &str) -> Vec<Call> {
    let base = rc::all_cells(0);
    let q = rc::children(base[6])[1];
    let tmax = if tier == "quick" { 5 } else { 6 };
    let mut calls = Vec::new();
    for t in -1..=tmax {
        calls.push(Call::Uncompact(vec![0], t));
        calls.push(Call::Children(0, Some(t)));
        if t >= 0 {
            calls.push(Call::Uncompact(vec![base[6]], t));
            calls.push(Call::Children(base[11], Some(t)));
        }
        if t >= 1 {
            calls.push(Call::Uncompact(vec![q, base[2]], t));
        }
    }
    calls.push(Call::Uncompact(vec![0, base[3]], 1));
    calls.push(Call::Uncompact(vec![base[3], 0], 2));
    calls
}

pub fn collision_circuits(tier: &str, class: &str) -> (u64, Vec<Viol>) {
    let ress: &[i32] = if tier == "quick" { &[14, 28, 29] } else { &[5, 9, 14, 17, 20, 25, 27, 28, 29] };
    let mut fams: Vec<Vec<Call>> = ress.iter().map(|&r| collision_calls(r)).collect();
    fams.push(expansion_calls(tier));
    let res: Vec<(u64, Vec<Viol>)> = fams
        .par_iter()
        .map(|calls| {
            let calls = calls.clone();
            let class = class.to_string();
            std::thread::scope(|sc| {
                sc.spawn(move || {
                    // (uncompact keeps input order: compare unsorted; the other calls as sets)
                    let keep_order = |c: &Call| matches!(c, Call::Uncompact(..));
                    let want: Vec<Vec<u64>> = calls
                        .iter()
                        .map(|c| {
                            let mut w = c.expect();
                            if !keep_order(c) {
                                w.sort_unstable();
                            }
                            w
                        })
                        .collect();
                    let mut n = 0u64;
                    for a in 0..calls.len() {
                        for b in 0..calls.len() {
                            let _ = calls[a].run();
                            let mut got = calls[b].run().unwrap_or_default();
                            if !keep_order(&calls[b]) {
                                got.sort_unstable();
                            } else {
                                // per-input blocks as sets: order inside a block is not specified
                                got = canonical_blocks(&calls[b], got);
                            }
                            n += 1;
                            if got != want_blocks(&calls[b], &want[b]) {
                                return (
                                    n,
                                    vec![viol(
                                        &class,
                                        format!("{:?} right after {:?} on the same thread returned {:?}; the hierarchy dictates {:?}", calls[b], calls[a], got.iter().take(6).map(|&x| subj::hex(x)).collect::<Vec<_>>(), want[b].iter().take(6).map(|&x| subj::hex(x)).collect::<Vec<_>>()),
                                        json!({"kind": "call-pair", "first": calls[a].to_json(), "second": calls[b].to_json(), "class": class}),
                                    )],
                                );
                            }
                        }
                    }
                    (n, vec![])
                })
                .join()
                .unwrap()
            })
        })
        .collect();
    let mut n = 0;
    let mut out = Vec::new();
    for (c, v) in res {
        n += c;
        out.extend(v);
    }
    (n, out)
}

/// A call repeated after exactly g - 1 identical filler calls on one fresh thread, g around 2^8, 2^10,
/// 2^12 and 2^16 (call counters that wrap, slots that look fresh again), for several (call, filler)
/// pairs; every result is compared with the reference hierarchy.
pub fn call_ladders(class: &str, which: &[&str]) -> (u64, Vec<Viol>) {
    let base = rc::all_cells(0);
    let q = rc::children(base[9])[2];
    let a = under(q, &[1, 2, 0, 3, 1]);
    let b = under(rc::children(base[1])[4], &[0, 0, 2]);
    let mut pairs: Vec<(Call, Call)> = Vec::new();
    for w in which {
        match *w {
            "compact" => {
                let mut x = rc::children(a);
                x.push(under(q, &[3]));
                x.push(under(q, &[2, 2, 1]));
                pairs.push((Call::Compact(x), Call::Compact(vec![b])));
                pairs.push((Call::Compact(rc::all_cells(1)), Call::Compact(rc::children(b))));
            }
            "uncompact" => {
                pairs.push((Call::Uncompact(vec![a, q, a], 8), Call::Uncompact(vec![b], 5)));
            }
            "children" => {
                pairs.push((Call::Children(a, Some(9)), Call::Children(b, None)));
                pairs.push((Call::Children(0, Some(1)), Call::Children(base[3], None)));
            }
            "parent" => {
                pairs.push((Call::Parent(under(a, &[1, 1, 1, 2, 3, 0, 1, 2, 2, 2, 1, 0, 3]), Some(2)), Call::Parent(b, None)));
            }
            _ => {}
        }
    }
    let res: Vec<(u64, Vec<Viol>)> = pairs
        .par_iter()
        .map(|(x, f)| {
            let (x, f, class) = (x.clone(), f.clone(), class.to_string());
            std::thread::scope(|sc| {
                sc.spawn(move || {
                    let norm = |c: &Call, mut v: Vec<u64>| {
                        if !matches!(c, Call::Uncompact(..)) {
                            v.sort_unstable();
                            v
                        } else {
                            canonical_blocks(c, v)
                        }
                    };
                    let want_x = norm(&x, x.expect());
                    let want_f = norm(&f, f.expect());
                    let mut n = 0u64;
                    let check = |c: &Call, want: &Vec<u64>, gap: u64, n: u64| -> Option<Viol> {
                        let got = norm(c, c.run().unwrap_or_default());
                        if &got != want {
                            Some(viol(&class, format!("{:?} returned {} ids that differ from the hierarchy ({} expected) when called after exactly {} identical calls of {:?} (call #{} of the thread)", c, got.len(), want.len(), gap.saturating_sub(1), f, n), json!({"kind": "call-ladder", "call": c.to_json(), "filler": f.to_json(), "gap": gap, "class": class})))
                        } else {
                            None
                        }
                    };
                    if let Some(v) = check(&x, &want_x, 0, 0) {
                        return (1, vec![v]);
                    }
                    n += 1;
                    for g in [255u64, 256, 257, 1023, 1024, 1025, 4096, 65535, 65536, 65537] {
                        for k in 1..g {
                            n += 1;
                            if k % 8191 == 1 {
                                if let Some(v) = check(&f, &want_f, g, n) {
                                    return (n, vec![v]);
                                }
                            } else {
                                let _ = f.run();
                            }
                        }
                        n += 1;
                        if let Some(v) = check(&x, &want_x, g, n) {
                            return (n, vec![v]);
                        }
                    }
                    (n, vec![])
                })
                .join()
                .unwrap()
            })
        })
        .collect();
    let mut n = 0;
    let mut out = Vec::new();
    for (c, v) in res {
        n += c;
        out.extend(v);
    }
    (n, out)
}

/// compact calls of several levels, valid and refused (an invalid id at the end, in the middle, in front of
/// valid cells of every level), as all ordered pairs on one fresh thread; the second call of each pair is
/// compared with the canonical compaction when it is valid. What a refused call saw must not leak.
pub fn compact_refusal_circuit(class: &str) -> (u64, Vec<Viol>) {
    let base = rc::all_cells(0);
    let q = rc::children(base[8])[1];
    let a3 = under(q, &[2, 1]);
    let a5 = under(a3, &[0, 3]);
    let a8 = under(a5, &[1, 1, 2]);
    let mut valid: Vec<Vec<u64>> = Vec::new();
    for x in [a3, a5, a8] {
        let ch = rc::children(x);
        valid.push(ch.clone());
        valid.push(ch[..3].to_vec());
        valid.push(vec![ch[3]]);
        valid.push(vec![x]);
        let mut m = rc::children(ch[1]);
        m.extend([ch[0], ch[2], ch[3]]);
        valid.push(m);
    }
    valid.push(rc::children(q));
    valid.push(rc::all_cells(1));
    let mut calls: Vec<(Call, bool)> = valid.iter().map(|v| (Call::Compact(v.clone()), true)).collect();
    for v in valid.iter().take(12) {
        for bad in [1u64, u64::MAX, 0x0400000000000000 | 3] {
            let mut e = v.clone();
            e.push(bad);
            calls.push((Call::Compact(e), false));
            let mut f = vec![bad];
            f.extend(v.iter().copied());
            calls.push((Call::Compact(f), false));
        }
    }
    let class = class.to_string();
    std::thread::scope(|sc| {
        sc.spawn(move || {
            let want: Vec<Vec<u64>> = calls.iter().map(|(c, ok)| if *ok { c.expect() } else { vec![] }).collect();
            let mut n = 0u64;
            for a in 0..calls.len() {
                for b in 0..calls.len() {
                    if !calls[b].1 {
                        continue;
                    }
                    let _ = calls[a].0.run();
                    let got = calls[b].0.run();
                    n += 1;
                    if got.as_ref().ok() != Some(&want[b]) {
                        return (
                            n,
                            vec![viol(
                                &class,
                                format!("{:?} right after {:?} on the same thread returned {:?}; the canonical compaction is {:?}", calls[b].0, calls[a].0, got.map(|v| v.iter().map(|&x| subj::hex(x)).collect::<Vec<_>>()), want[b].iter().map(|&x| subj::hex(x)).collect::<Vec<_>>()),
                                json!({"kind": "call-pair", "first": calls[a].0.to_json(), "second": calls[b].0.to_json(), "class": class}),
                            )],
                        );
                    }
                }
            }
            (n, vec![])
        })
        .join()
        .unwrap()
    })
}

/// replay of the cases this module records
pub fn replay(case: &serde_json::Value) -> Option<Vec<Viol>> {
    let cells = || case["cells"].as_array().map(|a| a.iter().filter_map(|x| x.as_str().and_then(|s| u64::from_str_radix(s, 16).ok())).collect::<Vec<u64>>());
    match case["kind"].as_str()? {
        "after-refusal" => {
            let e = Call::from_json(&case["refused"])?;
            let v = Call::from_json(&case["call"])?;
            // fresh thread: the recorded pair is the whole history
            Some(std::thread::scope(|sc| sc.spawn(move || refusal_then(&e, &v).into_iter().collect::<Vec<_>>()).join().unwrap()))
        }
        "call-ladder" => {
            let x = Call::from_json(&case["call"])?;
            let f = Call::from_json(&case["filler"])?;
            let gap = case["gap"].as_u64().unwrap_or(0);
            let class = case["class"].as_str().unwrap_or("C07/after-call").to_string();
            let case2 = case.clone();
            Some(std::thread::scope(|sc| {
                sc.spawn(move || {
                    // the ladder up to the recorded gap
                    let _ = x.run();
                    let mut out = Vec::new();
                    for g in [255u64, 256, 257, 1023, 1024, 1025, 4096, 65535, 65536, 65537] {
                        for _ in 1..g {
                            let _ = f.run();
                        }
                        let mut got = x.run().unwrap_or_default();
                        let mut want = x.expect();
                        got.sort_unstable();
                        want.sort_unstable();
                        if got != want {
                            out.push(viol(&class, format!("{:?} differs from the hierarchy after {} identical filler calls", x, g - 1), case2.clone()));
                            break;
                        }
                        if g >= gap {
                            break;
                        }
                    }
                    out
                })
                .join()
                .unwrap()
            }))
        }
        "call-pair" => {
            let a = Call::from_json(&case["first"])?;
            let b = Call::from_json(&case["second"])?;
            let class = case["class"].as_str().unwrap_or("C07/after-call").to_string();
            let case2 = case.clone();
            Some(std::thread::scope(|sc| {
                sc.spawn(move || {
                    let _ = a.run();
                    let mut got = b.run().unwrap_or_default();
                    got.sort_unstable();
                    let mut want = b.expect();
                    want.sort_unstable();
                    if got != want {
                        vec![viol(&class, format!("{:?} right after {:?} returned {} ids that differ from the hierarchy", b, a, got.len()), case2)]
                    } else {
                        vec![]
                    }
                })
                .join()
                .unwrap()
            }))
        }
        "children" => {
            let c = u64::from_str_radix(case["id"].as_str()?, 16).ok()?;
            let t = case["target"].as_i64()? as i32;
            Some(check_fanout(c, t).1)
        }
        "uncompact" if case["target"].is_i64() => Some(check_blocks(&cells()?, case["target"].as_i64()? as i32)),
        _ => None,
    }
}
