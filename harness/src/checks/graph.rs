//! C07 (tree axioms) and C20 (numeric order follows the tree): BFS over the hierarchy graph through
//! the real cell_to_children / cell_to_parent, compared with RefCodec.
use crate::enumerate as en;
use crate::ev::{viol, Report, Viol};
use crate::refcodec as rc;
use crate::subj;
use rayon::prelude::*;
use serde_json::{json, Value};
use std::collections::HashSet;
use std::sync::atomic::{AtomicU64, Ordering};

fn idcase(c: u64) -> Value {
    json!({"kind": "cell", "id": subj::hex(c)})
}

fn expected_fanout(res: i32) -> usize {
    match res {
        -1 => 12,
        0 => 5,
        _ => 4,
    }
}

/// per-state oracle of C07 for cell c (resolution known from RefCodec), jumps up to kmax
pub fn check_cell_c07(c: u64, kmax: i32, transitions: &AtomicU64) -> Vec<Viol> {
    let mut out = Vec::new();
    let res = rc::resolution(c).unwrap();
    // children at res+1
    if res < 29 {
        match subj::children(c, None) {
            Ok(ch) => {
                transitions.fetch_add(ch.len() as u64, Ordering::Relaxed);
                let set: HashSet<u64> = ch.iter().copied().collect();
                if set.len() != ch.len() {
                    out.push(viol("C07/children-distinct", format!("children of {} repeat an element", subj::hex(c)), idcase(c)));
                }
                if ch.len() != expected_fanout(res) {
                    out.push(viol("C07/fanout", format!("{} children, hierarchy dictates {}", ch.len(), expected_fanout(res)), idcase(c)));
                }
                let want: HashSet<u64> = rc::children(c).into_iter().collect();
                if set != want {
                    out.push(viol("C07/children-set", format!("children of {} differ from the documented subdivision", subj::hex(c)), idcase(c)));
                }
                for &k in &ch {
                    if rc::resolution(k) != Some(res + 1) {
                        out.push(viol("C07/child-resolution", format!("child {} is not of resolution {}", subj::hex(k), res + 1), idcase(c)));
                        continue;
                    }
                    match subj::parent(k, None) {
                        Ok(p) if p == c => {}
                        other => out.push(viol("C07/parent-of-child", format!("cell_to_parent({}) = {:?}, expected {}", subj::hex(k), other.map(subj::hex), subj::hex(c)), idcase(c))),
                    }
                    transitions.fetch_add(1, Ordering::Relaxed);
                }
            }
            Err(e) => out.push(viol("C07/children-error", format!("cell_to_children({}) failed: {}", subj::hex(c), e), idcase(c))),
        }
    }
    // children(c, res) == [c]
    match subj::children(c, Some(res)) {
        Ok(v) if v == vec![c] => {}
        other => out.push(viol("C07/children-same-res", format!("children at own resolution = {:?}", other), idcase(c))),
    }
    // ancestor composition: parent(parent(c,b),a) == parent(c,a) for -1 <= a <= b <= res
    let mut anc: Vec<Option<u64>> = Vec::new();
    for b in -1..=res {
        let pb = subj::parent(c, Some(b));
        transitions.fetch_add(1, Ordering::Relaxed);
        match &pb {
            Ok(p) if Some(*p) == rc::ancestor(c, b) => anc.push(Some(*p)),
            other => {
                out.push(viol("C07/ancestor", format!("cell_to_parent({}, {}) = {:?}, expected {:?}", subj::hex(c), b, other, rc::ancestor(c, b).map(subj::hex)), idcase(c)));
                anc.push(None);
            }
        }
    }
    for b in -1..=res {
        if let Some(pb) = anc[(b + 1) as usize] {
            for a in -1..=b {
                let r = subj::parent(pb, Some(a));
                transitions.fetch_add(1, Ordering::Relaxed);
                if r.as_ref().ok().copied() != anc[(a + 1) as usize] && anc[(a + 1) as usize].is_some() {
                    out.push(viol("C07/ancestor-composition", format!("parent(parent(c,{}),{}) = {:?} but parent(c,{}) = {:?}", b, a, r, a, anc[(a + 1) as usize]), idcase(c)));
                }
            }
        }
    }
    // parent at a finer resolution is an error
    if res < 29 {
        if let Ok(p) = subj::parent(c, Some(res + 1)) {
            out.push(viol("C07/parent-finer", format!("cell_to_parent to a finer resolution returned {}", subj::hex(p)), idcase(c)));
        }
    }
    // jumps: children(c, res+k) equals the k-fold expansion (coarse cells: every target in scope)
    let kmax = if res <= 2 { 9 } else { kmax };
    for k in 2..=kmax {
        let t = res + k;
        if t > 29 || rc::fanout(res, t) > 65536 {
            break;
        }
        match subj::children(c, Some(t)) {
            Ok(v) => {
                transitions.fetch_add(v.len() as u64, Ordering::Relaxed);
                let want = rc::descendants(c, t);
                let set: HashSet<u64> = v.iter().copied().collect();
                let wset: HashSet<u64> = want.iter().copied().collect();
                if v.len() != want.len() || set != wset {
                    out.push(viol("C07/jump", format!("children({}, {}) has {} elements ({} distinct); the {}-fold expansion has {}", subj::hex(c), t, v.len(), set.len(), k, want.len()), idcase(c)));
                }
            }
            Err(e) => out.push(viol("C07/jump", format!("children({}, {}) failed: {}", subj::hex(c), t, e), idcase(c))),
        }
    }
    out
}

pub fn run_c07(tier: &str) -> Report {
    let mut rep = Report::new("model_checking");
    let (rmax, kmax) = if tier == "quick" { (7, 3) } else { (8, 4) };
    let transitions = AtomicU64::new(0);
    let mut states = 0u64;
    let mut levels_validated = 0u64;
    // BFS from the world cell through the real children function
    let mut level: Vec<u64> = vec![0];
    let mut res = -1;
    while res <= rmax {
        states += level.len() as u64;
        let vs: Vec<Viol> = level.par_iter().flat_map(|&c| check_cell_c07(c, kmax, &transitions)).collect();
        rep.sink.extend(vs);
        if res == rmax {
            break;
        }
        // next level = multiset union of all children lists; must equal ALL(res+1) exactly once
        let next: Vec<u64> = level.par_iter().flat_map(|&c| subj::children(c, None).unwrap_or_default()).collect();
        let mut sorted = next.clone();
        sorted.par_sort_unstable();
        let mut want = rc::all_cells(res + 1);
        want.par_sort_unstable();
        if sorted != want {
            let dups = sorted.windows(2).filter(|w| w[0] == w[1]).count();
            rep.sink.push(viol(
                "C07/level-enumeration",
                format!("children of all cells at r={} give {} ids ({} repeated); resolution {} has {} cells", res, sorted.len(), dups, res + 1, want.len()),
                json!({"kind": "level", "res": res}),
            ));
            // continue the BFS on the reference enumeration so that deeper levels are still checked
            level = want;
        } else {
            levels_validated += 1;
            level = sorted;
        }
        res += 1;
    }
    // deep part: family chains to r=29
    let chains = en::fam_chains(2, 29);
    let fam: Vec<u64> = {
        let mut v: Vec<u64> = chains.iter().flatten().copied().filter(|&c| rc::resolution(c).unwrap() > rmax).collect();
        v.extend(en::aligned_cells());
        v.sort_unstable();
        v.dedup();
        v
    };
    let kdeep = if tier == "quick" { 4 } else { 8 };
    let vs: Vec<Viol> = fam.par_iter().flat_map(|&c| check_cell_c07(c, kdeep, &transitions)).collect();
    rep.sink.extend(vs);
    states += fam.len() as u64;

    // beyond the BFS bounds: fan-outs above 4^8, and ordinary calls right after a refused call
    let (ncalls, nids, v) = crate::checks::longlists::big_fanouts(tier);
    rep.sink.extend(v);
    rep.set("fanouts_above_4^8_calls", json!(ncalls));
    rep.set("fanouts_above_4^8_ids_compared", json!(nids));
    let (npairs, v) = crate::checks::longlists::after_refusal(tier);
    rep.sink.extend(v);
    rep.set("refused_then_valid_call_pairs", json!(npairs));
    let (ncalls2, v) = crate::checks::longlists::call_ladders("C07/after-many-calls", &["children", "parent"]);
    rep.sink.extend(v);
    rep.set("call_ladder_calls", json!(ncalls2));
    let (npairs, v) = crate::checks::longlists::collision_circuits(tier, "C07/after-call");
    rep.sink.extend(v);
    rep.set("collision_family_call_pairs", json!(npairs));

    rep.set("states", json!(states));
    rep.set("transitions", json!(transitions.load(Ordering::Relaxed)));
    rep.set("traces_validated_against_impl", json!(levels_validated));
    rep.set("evaluations", json!(states));
    rep.set("distinct_nontrivial", json!(states));
    rep.set("rule", json!(format!(
        "BFS from the world cell through real cell_to_children to r={} (every cell is a state; edges = child, parent, ancestor-pair and jump calls, jumps k<={}); each level's multiset of children compared with the independent RefCodec enumeration (traces_validated = levels that matched); plus {} family cells r={}..29 with jumps k<={}",
        rmax, kmax, fam.len(), rmax + 1, kdeep)));
    rep.set("exhaustive", json!(true));
    rep.set("exhaustive_scope", json!(format!("all cells of resolution -1..{}", rmax)));
    rep.sample(json!({"cell": subj::hex(level[level.len() / 2]), "checked": "children, parent-of-child, all ancestor pairs, jumps"}));
    rep.sample(json!({"family_cell": subj::hex(*fam.last().unwrap())}));
    rep.assume("fan-outs above 4^8 are checked on the listed calls only (up to 4^9..4^12 per call)");
    rep.assume("resolutions above the exhaustive bound are covered on digit-pattern families only");
    rep
}

// ---------------------------------------------------------------------------------------- C20

pub fn run_c20(tier: &str) -> Report {
    let mut rep = Report::new("model_checking");
    let rmax: i32 = if tier == "quick" { 9 } else { 10 };
    let transitions = AtomicU64::new(0);
    // enumerate through the real children function
    let mut levels: Vec<Vec<u64>> = Vec::new(); // index = res (0..)
    let mut level: Vec<u64> = vec![0];
    for _res in -1..rmax {
        let next: Vec<u64> = level.par_iter().flat_map(|&c| subj::children(c, None).unwrap_or_default()).collect();
        let mut s = next;
        s.par_sort_unstable();
        s.dedup();
        levels.push(s.clone());
        level = s;
    }
    // sorted all-resolution list of cells with res >= 1
    let mut all: Vec<u64> = levels.iter().skip(1).flatten().copied().collect();
    all.par_sort_unstable();
    let mut states = 0u64;
    // (a)+(b) adjacent same-resolution pairs, r >= 2
    for r in 2..=rmax {
        let l = &levels[r as usize];
        states += l.len() as u64;
        let vs: Vec<Viol> = (0..l.len() - 1)
            .into_par_iter()
            .flat_map(|i| {
                let (a, b) = (l[i], l[i + 1]);
                let mut out = Vec::new();
                for q in 1..=r {
                    let (pa, pb) = (subj::parent(a, Some(q)), subj::parent(b, Some(q)));
                    transitions.fetch_add(2, Ordering::Relaxed);
                    match (pa, pb) {
                        (Ok(pa), Ok(pb)) if pa <= pb => {}
                        (pa, pb) => out.push(viol(
                            "C20/ancestor-order",
                            format!("a={} < b={} but ancestors at r={} are {:?} and {:?}", subj::hex(a), subj::hex(b), q, pa.map(subj::hex), pb.map(subj::hex)),
                            json!({"kind": "pair", "a": subj::hex(a), "b": subj::hex(b), "q": q}),
                        )),
                    }
                }
                for d in 1..=4 {
                    if r + d > 29 || (r + d > rmax + 2) {
                        break;
                    }
                    let (da, db) = (subj::children(a, Some(r + d)), subj::children(b, Some(r + d)));
                    transitions.fetch_add(2, Ordering::Relaxed);
                    if let (Ok(da), Ok(db)) = (da, db) {
                        let (ma, mb) = (da.iter().max().copied(), db.iter().min().copied());
                        if ma >= mb {
                            out.push(viol(
                                "C20/descendant-order",
                                format!("a={} < b={} but a descendant of a at depth {} ({:?}) does not precede every descendant of b ({:?})", subj::hex(a), subj::hex(b), d, ma.map(subj::hex), mb.map(subj::hex)),
                                json!({"kind": "pair", "a": subj::hex(a), "b": subj::hex(b), "d": d}),
                            ));
                        }
                    }
                }
                out
            })
            .collect();
        rep.sink.extend(vs);
    }
    // (c) subtree of every cell with res >= 1 = one contiguous interval without foreign cells
    let subtrees = AtomicU64::new(0);
    for r in 1..=rmax {
        let l = &levels[r as usize];
        let vs: Vec<Viol> = l
            .par_iter()
            .flat_map(|&c| {
                let mut out = Vec::new();
                let depth = 4.min(rmax - r);
                let (mut lo, mut hi) = (c, c);
                let mut count = 1u64;
                for d in 1..=depth {
                    if let Ok(ds) = subj::children(c, Some(r + d)) {
                        transitions.fetch_add(1, Ordering::Relaxed);
                        count += ds.len() as u64;
                        for x in ds {
                            lo = lo.min(x);
                            hi = hi.max(x);
                        }
                    }
                }
                subtrees.fetch_add(1, Ordering::Relaxed);
                let i0 = all.partition_point(|&x| x < lo);
                let i1 = all.partition_point(|&x| x <= hi);
                let mut members = 0u64;
                for &x in &all[i0..i1] {
                    if rc::is_descendant_or_self(x, c) {
                        members += 1;
                    } else {
                        out.push(viol(
                            "C20/interval-foreign",
                            format!("id interval of the subtree of {} contains foreign cell {}", subj::hex(c), subj::hex(x)),
                            json!({"kind": "subtree", "id": subj::hex(c), "foreign": subj::hex(x)}),
                        ));
                        break;
                    }
                }
                // all descendants to `depth` must be inside (they define the interval) and be counted
                let in_depth = all[i0..i1].iter().filter(|&&x| rc::resolution(x).unwrap() <= r + depth).count() as u64;
                if out.is_empty() && in_depth != count {
                    out.push(viol(
                        "C20/interval-count",
                        format!("subtree of {} to depth {} has {} cells but its id interval holds {} cells of those resolutions ({} members)", subj::hex(c), depth, count, in_depth, members),
                        json!({"kind": "subtree", "id": subj::hex(c)}),
                    ));
                }
                out
            })
            .collect();
        rep.sink.extend(vs);
    }
    // siblings adjacent among same-resolution ids
    for r in 2..=rmax {
        let l = &levels[r as usize];
        let vs: Vec<Viol> = l
            .par_chunks(4)
            .filter_map(|ch| {
                let p0 = rc::parent(ch[0]);
                if ch.iter().all(|&x| rc::parent(x) == p0) {
                    None
                } else {
                    Some(viol("C20/siblings-adjacent", format!("sorted same-resolution ids {:?} are not one sibling group", ch.iter().map(|&x| subj::hex(x)).collect::<Vec<_>>()), json!({"kind": "cell", "id": subj::hex(ch[0])})))
                }
            })
            .collect();
        rep.sink.extend(vs);
    }
    // exemption is not vacuous: base-cell ids do interleave with quintant ids of other faces
    let mut with_base: Vec<u64> = all.clone();
    with_base.extend(levels[0].iter().copied());
    with_base.sort_unstable();
    let mut interleaving = 0;
    for &b in &levels[0] {
        let ds: Vec<u64> = rc::descendants(b, 1);
        let (lo, hi) = (ds.iter().min().copied().unwrap().min(b), ds.iter().max().copied().unwrap().max(b));
        let i0 = with_base.partition_point(|&x| x < lo);
        let i1 = with_base.partition_point(|&x| x <= hi);
        if with_base[i0..i1].iter().any(|&x| !rc::is_descendant_or_self(x, b)) {
            interleaving += 1;
        }
    }
    // deep: family chains, adjacency straddling parent boundaries at every level to r=29
    let mut deep_pairs = 0u64;
    let mut chains = en::fam_chains(2, 29);
    chains.push(en::aligned_cells()); // word-aligned ids: the numeric neighbour carries over 8..20 digits
    let vs: Vec<Viol> = chains
        .par_iter()
        .flat_map(|chain| {
            let mut out = Vec::new();
            for &c in chain.iter().filter(|&&c| rc::resolution(c).unwrap() > rmax) {
                let r = rc::resolution(c).unwrap();
                // numeric neighbour at the same resolution: add one stride (next position or next quintant)
                let stride = 1u64 << (rc::marker_pos(r) + 1);
                let b = c.wrapping_add(stride);
                if !rc::is_canonical(b) || rc::resolution(b) != Some(r) {
                    continue;
                }
                for q in 1..=r {
                    let (pa, pb) = (subj::parent(c, Some(q)), subj::parent(b, Some(q)));
                    transitions.fetch_add(2, Ordering::Relaxed);
                    match (pa, pb) {
                        (Ok(pa), Ok(pb)) if pa <= pb => {}
                        (pa, pb) => out.push(viol(
                            "C20/ancestor-order",
                            format!("a={} < b={} but ancestors at r={} are {:?} and {:?}", subj::hex(c), subj::hex(b), q, pa.map(subj::hex), pb.map(subj::hex)),
                            json!({"kind": "pair", "a": subj::hex(c), "b": subj::hex(b), "q": q}),
                        )),
                    }
                }
                for d in [1, 2] {
                    if r + d > 29 {
                        break;
                    }
                    if let (Ok(da), Ok(db)) = (subj::children(c, Some(r + d)), subj::children(b, Some(r + d))) {
                        if da.iter().max() >= db.iter().min() {
                            out.push(viol("C20/descendant-order", format!("descendants of {} at depth {} do not precede those of {}", subj::hex(c), d, subj::hex(b)), json!({"kind": "pair", "a": subj::hex(c), "b": subj::hex(b), "d": d})));
                        }
                        // the subtree is one id interval: every descendant lies strictly between the cell's
                        // predecessor and successor at its own resolution
                        let lo = c.wrapping_sub(stride);
                        if da.iter().any(|&x| x <= lo || x >= b) && rc::is_canonical(lo) {
                            out.push(viol("C20/interval-foreign", format!("a descendant of {} at depth {} lies outside the id interval between its neighbours", subj::hex(c), d), json!({"kind": "cell", "id": subj::hex(c)})));
                        }
                    }
                }
            }
            out
        })
        .collect();
    for chain in &chains {
        deep_pairs += chain.iter().filter(|&&c| rc::resolution(c).unwrap() > rmax).count() as u64;
    }
    rep.sink.extend(vs);

    // the sibling stride and the first-child test that compaction and range scans rely on are the numeric
    // distance between consecutive siblings and "position 0 in the group" of the reference hierarchy
    for r in 0..=29 {
        let c = *en::fam_chains(2, 29)[3].iter().find(|&&c| rc::resolution(c) == Some(r.max(2))).unwrap();
        let c = if r < 2 { rc::ancestor(c, r).unwrap() } else { c };
        let mut sib = rc::children(rc::parent(c).unwrap());
        sib.sort_unstable(); // numeric order (at resolution 1 the quintant order differs from the code order)
        let want = sib[1] - sib[0];
        match subj::guard_val(|| a5::core::serialization::get_stride(r)) {
            Ok(s) if s == want => {}
            other => rep.sink.push(viol("C20/stride", format!("get_stride({}) = {:?}; consecutive siblings of resolution {} are {:#x} apart", r, other, r, want), json!({"kind": "stride", "res": r}))),
        }
        for (k, &x) in sib.iter().enumerate() {
            match subj::guard_val(|| a5::core::serialization::is_first_child(x, None)) {
                Ok(b) if b == (k == 0) => {}
                other => rep.sink.push(viol("C20/stride", format!("is_first_child({}) = {:?} for sibling #{} of its group", subj::hex(x), other, k), json!({"kind": "cell", "id": subj::hex(x)}))),
            }
        }
    }
    // histories: ancestors and descendants must not depend on what the thread asked before (a wrong
    // ancestor breaks the order claims); collision families of cells, all ordered pairs of calls
    let (npairs, v) = crate::checks::longlists::collision_circuits(tier, "C20/ancestor-or-descendant-after-call");
    rep.sink.extend(v);
    rep.set("collision_family_call_pairs", json!(npairs));
    rep.set("states", json!(all.len() as u64 + 12));
    rep.set("transitions", json!(transitions.load(Ordering::Relaxed)));
    rep.set("traces_validated_against_impl", json!(subtrees.load(Ordering::Relaxed)));
    rep.set("evaluations", json!(states + subtrees.load(Ordering::Relaxed) + deep_pairs));
    rep.set("distinct_nontrivial", json!(all.len() as u64));
    rep.set("rule", json!(format!(
        "all cells r<=1..{} enumerated through real cell_to_children into one sorted list; every adjacent same-resolution pair (r>=2) x every ancestor level 1..r and descendant depth <=4 (adjacent pairs imply all pairs by transitivity); every subtree (res>=1) to depth 4 as id interval; {} deep neighbour pairs from families to r=29",
        rmax, deep_pairs)));
    rep.set("exhaustive", json!(true));
    rep.set("exhaustive_scope", json!(format!("all same-resolution pairs and all subtrees for resolution <= {}", rmax)));
    rep.set("base_cells_interleaving", json!(interleaving));
    rep.set("subtrees_checked", json!(subtrees.load(Ordering::Relaxed)));
    rep.sample(json!({"pair": [subj::hex(levels[2][3]), subj::hex(levels[2][4])], "note": "adjacent r=2 ids straddling a quintant boundary"}));
    rep.assume("base-cell ids are exempt, as the property states");
    if interleaving == 0 {
        rep.assume("WARNING: no base cell interleaves on this tree (exemption vacuous)");
    }
    rep
}

pub fn replay_c07(case: &Value) -> Vec<Viol> {
    if let Some(v) = crate::checks::longlists::replay(case) {
        return v;
    }
    if let Some(s) = case["id"].as_str() {
        let c = u64::from_str_radix(s, 16).unwrap();
        let t = AtomicU64::new(0);
        return check_cell_c07(c, 8, &t);
    }
    vec![]
}

pub fn replay_c20(case: &Value) -> Vec<Viol> {
    if let Some(v) = crate::checks::longlists::replay(case) {
        return v;
    }
    let hx = |k: &str| case[k].as_str().and_then(|s| u64::from_str_radix(s, 16).ok());
    let mut out = Vec::new();
    match case["kind"].as_str().unwrap_or("") {
        "pair" => {
            if let (Some(a), Some(b)) = (hx("a"), hx("b")) {
                let r = rc::resolution(a).unwrap_or(0);
                for q in 1..=r {
                    match (subj::parent(a, Some(q)), subj::parent(b, Some(q))) {
                        (Ok(pa), Ok(pb)) if pa <= pb => {}
                        (pa, pb) => out.push(viol("C20/ancestor-order", format!("ancestors at r={} are {:?} and {:?}", q, pa.map(subj::hex), pb.map(subj::hex)), case.clone())),
                    }
                }
                for d in 1..=4 {
                    if r + d > 29 {
                        break;
                    }
                    if let (Ok(da), Ok(db)) = (subj::children(a, Some(r + d)), subj::children(b, Some(r + d))) {
                        if da.iter().max() >= db.iter().min() {
                            out.push(viol("C20/descendant-order", format!("descendants at depth {} are not ordered", d), case.clone()));
                        }
                    }
                }
            }
        }
        "subtree" | "cell" => {
            if let Some(c) = hx("id") {
                let r = rc::resolution(c).unwrap_or(0);
                for d in 1..=4 {
                    if r + d > 29 {
                        break;
                    }
                    if let Ok(ds) = subj::children(c, Some(r + d)) {
                        let want: std::collections::HashSet<u64> = rc::descendants(c, r + d).into_iter().collect();
                        let got: std::collections::HashSet<u64> = ds.iter().copied().collect();
                        if got != want {
                            out.push(viol("C20/interval-count", format!("descendants of {} at depth {} differ from the hierarchy", subj::hex(c), d), case.clone()));
                        }
                    }
                }
            }
        }
        _ => {}
    }
    out
}
