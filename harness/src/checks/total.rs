//! C14 — total API. Structured id classes x resolution classes x coordinate classes x every public
//! function, in the release and the overflow-checked ("checked") build, each probe inside a
//! resource-limited child process (1 GiB address space, 10 s per probe watchdog).
use crate::ev::{viol, Report, Viol};
use crate::refcodec as rc;
use crate::subj;
use a5::coordinate_systems::LonLat;
use serde_json::{json, Value};
use std::collections::BTreeMap;
use std::io::{BufRead, BufReader, Write};
use std::process::{Command, Stdio};
use std::sync::atomic::{AtomicU64, Ordering};
use std::sync::{Arc, Mutex};

#[derive(Clone, Debug)]
pub enum Probe {
    Resolution(u64),
    Centre(u64),
    Boundary(u64, Option<i32>, bool),
    Children(u64, Option<i32>),
    Parent(u64, Option<i32>),
    Lookup(f64, f64, i32),
    Uncompact(Vec<u64>, i32),
    Compact(Vec<u64>),
    NumCells(i32),
    CellArea(i32),
    HexFmt(u64),
    HexParse(String),
    Res0,
    /// n short-lived threads, one after the other, each making a few ordinary geometry calls
    ManyThreads(u32),
    /// ordinary calls made from the destructor of a thread-local value while the thread shuts down
    ShutdownHook,
}

impl Probe {
    pub fn to_json(&self) -> Value {
        let h = |v: &Vec<u64>| v.iter().map(|&c| subj::hex(c)).collect::<Vec<_>>();
        match self {
            Probe::Resolution(c) => json!({"kind": "probe", "f": "get_resolution", "id": subj::hex(*c)}),
            Probe::Centre(c) => json!({"kind": "probe", "f": "cell_to_lonlat", "id": subj::hex(*c)}),
            Probe::Boundary(c, n, closed) => json!({"kind": "probe", "f": "cell_to_boundary", "id": subj::hex(*c), "segments": n, "closed": closed}),
            Probe::Children(c, r) => json!({"kind": "probe", "f": "cell_to_children", "id": subj::hex(*c), "res": r}),
            Probe::Parent(c, r) => json!({"kind": "probe", "f": "cell_to_parent", "id": subj::hex(*c), "res": r}),
            Probe::Lookup(lon, lat, r) => json!({"kind": "probe", "f": "lonlat_to_cell", "lon": lon, "lat": lat, "res": r}),
            Probe::Uncompact(v, r) => json!({"kind": "probe", "f": "uncompact", "cells": h(v), "res": r}),
            Probe::Compact(v) => json!({"kind": "probe", "f": "compact", "cells": h(v)}),
            Probe::NumCells(r) => json!({"kind": "probe", "f": "get_num_cells", "res": r}),
            Probe::CellArea(r) => json!({"kind": "probe", "f": "cell_area", "res": r}),
            Probe::HexFmt(v) => json!({"kind": "probe", "f": "u64_to_hex", "id": subj::hex(*v)}),
            Probe::HexParse(s) => json!({"kind": "probe", "f": "hex_to_u64", "s": s}),
            Probe::Res0 => json!({"kind": "probe", "f": "get_res0_cells"}),
            Probe::ManyThreads(n) => json!({"kind": "probe", "f": "many_threads", "n": n}),
            Probe::ShutdownHook => json!({"kind": "probe", "f": "shutdown_hook"}),
        }
    }
    pub fn from_json(v: &Value) -> Option<Probe> {
        let id = || v["id"].as_str().and_then(|s| u64::from_str_radix(s, 16).ok());
        let cells = || v["cells"].as_array().map(|a| a.iter().filter_map(|x| x.as_str().and_then(|s| u64::from_str_radix(s, 16).ok())).collect::<Vec<u64>>());
        let res = || v["res"].as_i64().map(|x| x as i32);
        Some(match v["f"].as_str()? {
            "get_resolution" => Probe::Resolution(id()?),
            "cell_to_lonlat" => Probe::Centre(id()?),
            "cell_to_boundary" => Probe::Boundary(id()?, v["segments"].as_i64().map(|x| x as i32), v["closed"].as_bool().unwrap_or(true)),
            "cell_to_children" => Probe::Children(id()?, res()),
            "cell_to_parent" => Probe::Parent(id()?, res()),
            "lonlat_to_cell" => Probe::Lookup(v["lon"].as_f64()?, v["lat"].as_f64()?, res()?),
            "uncompact" => Probe::Uncompact(cells()?, res()?),
            "compact" => Probe::Compact(cells()?),
            "get_num_cells" => Probe::NumCells(res()?),
            "cell_area" => Probe::CellArea(res()?),
            "u64_to_hex" => Probe::HexFmt(id()?),
            "hex_to_u64" => Probe::HexParse(v["s"].as_str()?.to_string()),
            "get_res0_cells" => Probe::Res0,
            "many_threads" => Probe::ManyThreads(v["n"].as_u64()? as u32),
            "shutdown_hook" => Probe::ShutdownHook,
            _ => return None,
        })
    }
}

pub fn id_classes() -> Vec<u64> {
    let mut v: Vec<u64> = vec![0, 1, 2, 3, u64::MAX, 1 << 63, u64::MAX - 1, 0x8000_0000_0000_0001];
    for k in 0..64 {
        v.push(1u64 << k);
    }
    let mut x: u64 = 0x9E3779B97F4A7C15;
    for top in 0..64u64 {
        for m in -1i32..=57 {
            for class in 0..4 {
                let mut id = top << 58;
                if m >= 0 {
                    id |= 1u64 << m;
                    let above_lo = (m + 1) as u32;
                    if above_lo < 58 {
                        let mask = ((1u64 << 58) - 1) & !((1u64 << above_lo) - 1);
                        match class {
                            0 => {}
                            1 => id |= mask,
                            2 => id |= 1u64 << above_lo,
                            _ => {
                                x ^= x << 13;
                                x ^= x >> 7;
                                x ^= x << 17;
                                id |= x & mask;
                                // garbage below the marker too
                                if m > 0 {
                                    id |= (x >> 7) & ((1u64 << m) - 1);
                                }
                            }
                        }
                    } else if class > 0 {
                        continue;
                    }
                } else if class > 0 {
                    continue;
                }
                v.push(id);
            }
        }
    }
    // every valid resolution on a few faces (canonical ids)
    for r in -1..=29 {
        for (f, q, s) in [(0u64, 0u64, 0u64), (3, 2, 1), (11, 4, 3)] {
            if let Some(id) = rc::encode(rc::Tuple { face: f, quintant: q, s: if r >= 2 { s } else { 0 }, res: r }) {
                v.push(id);
            }
        }
    }
    v.sort_unstable();
    v.dedup();
    v
}

pub fn res_classes() -> Vec<i32> {
    let mut v: Vec<i32> = (-40..=40).collect();
    v.extend([i32::MIN, i32::MIN + 1, -65536, 65536, i32::MAX - 1, i32::MAX]);
    v
}

pub fn probes(tier: &str) -> Vec<Probe> {
    let ids = id_classes();
    let ress = res_classes();
    let mut p = Vec::new();
    p.push(Probe::Res0);
    p.push(Probe::ShutdownHook);
    p.push(Probe::ManyThreads(if tier == "quick" { 700 } else { 4_000 }));
    for &c in &ids {
        p.push(Probe::Resolution(c));
        p.push(Probe::Centre(c));
        p.push(Probe::Boundary(c, None, true));
        p.push(Probe::Boundary(c, Some(1), false));
        p.push(Probe::Children(c, None));
        p.push(Probe::Parent(c, None));
        p.push(Probe::HexFmt(c));
        p.push(Probe::Compact(vec![c]));
    }
    let stride = if tier == "quick" { 61 } else { 5 };
    let mut subset: Vec<u64> = ids.iter().copied().step_by(stride).collect();
    subset.extend([0, 1, 2, 3, u64::MAX, 1 << 63]);
    for r in -1..=29 {
        if let Some(id) = rc::encode(rc::Tuple { face: 7, quintant: 1, s: if r >= 2 { 2 } else { 0 }, res: r }) {
            subset.push(id);
        }
    }
    subset.sort_unstable();
    subset.dedup();
    for &c in &subset {
        for &r in &ress {
            p.push(Probe::Children(c, Some(r)));
            p.push(Probe::Parent(c, Some(r)));
            p.push(Probe::Uncompact(vec![c], r));
        }
        p.push(Probe::Boundary(c, Some(3), true));
        // segments = 0 is answered like segments = 1 by the pinned release (negative counts are not probed:
        // the option is not in the property's quantifier and the pinned release aborts on them)
        p.push(Probe::Boundary(c, Some(0), true));
        p.push(Probe::Boundary(c, Some(0), false));
    }
    for w in subset.windows(3).step_by(5) {
        p.push(Probe::Compact(w.to_vec()));
        p.push(Probe::Uncompact(w.to_vec(), 3));
    }
    p.push(Probe::Compact(vec![]));
    p.push(Probe::Uncompact(vec![], 5));
    // one cell finer than the target together with very coarse cells: the honest answer is Err,
    // whatever the fan-out of the others would have been
    {
        let base = rc::all_cells(0);
        let c29 = rc::encode(rc::Tuple { face: 4, quintant: 2, s: 0x2aaa_aaaa_aaaa_aa, res: 29 }).unwrap();
        let c5 = rc::ancestor(c29, 5).unwrap();
        let c12 = rc::ancestor(c29, 12).unwrap();
        for t in [-1, 0, 1, 5, 11, 20, 28] {
            let mut l = base.clone();
            l.extend(base.iter().copied());
            l.push(c29);
            p.push(Probe::Uncompact(l, t));
            p.push(Probe::Uncompact(vec![c5, c29], t));
            p.push(Probe::Uncompact(vec![c29, c5], t));
            p.push(Probe::Uncompact(vec![0, c29], t));
            p.push(Probe::Uncompact(vec![c5, c12, c29], t));
        }
    }
    // long runs of consecutive cells, aligned and unaligned, as compact / uncompact inputs: every
    // output must be a canonical id (block-wise shortcuts that build ids arithmetically)
    for l in crate::checks::longlists::compact_inputs_for_totality(tier) {
        let r = rc::resolution(l[0]).unwrap();
        p.push(Probe::Uncompact(l.clone(), r));
        p.push(Probe::Uncompact(l.iter().copied().step_by(5).collect(), r + 1));
        p.push(Probe::Compact(l));
    }
    // numeric neighbours of the first and the last cell of every resolution, of a face and of a
    // quintant (one stride above / below): some are cells, some are not; alone, before and after a
    // valid cell, with the target equal to their apparent resolution and one finer
    for r in 0..=29 {
        let stride = 1u64 << (rc::marker_pos(r) + if r >= 2 { 1 } else { 0 });
        let cells = |f: u64, code: u64, last: bool| -> Option<u64> {
            let q = (code + rc::FIRST[f as usize]) % 5;
            let s = if r >= 2 && last { (1u64 << (2 * (r - 1))) - 1 } else { 0 };
            rc::encode(rc::Tuple { face: f, quintant: if r == 0 { 0 } else { q }, s, res: r })
        };
        let mut anchors: Vec<u64> = Vec::new();
        for (f, code, last) in [(0u64, 0u64, false), (11, 4, true), (5, 4, true), (6, 0, false), (3, 2, true), (3, 3, false)] {
            if let Some(c) = cells(f, code, last) {
                anchors.push(c);
            }
        }
        for &a in &anchors {
            for nb in [a.wrapping_add(stride), a.wrapping_sub(stride), a.wrapping_add(2 * stride)] {
                for t in [r, r + 1] {
                    if t > 29 {
                        continue;
                    }
                    p.push(Probe::Uncompact(vec![a, nb], t));
                    p.push(Probe::Uncompact(vec![nb, a], t));
                    p.push(Probe::Uncompact(vec![nb], t));
                    p.push(Probe::Uncompact(vec![a, a, nb, a], t));
                }
                p.push(Probe::Compact(vec![a, nb]));
                p.push(Probe::Compact(vec![nb, a]));
            }
        }
    }
    let lats = [90.0, -90.0, 90.0 - 1e-9, -90.0 + 1e-9, 89.99, -89.99, 0.0, 45.0, -45.0];
    let lons = [0.0, 180.0, -180.0, 360.0, -360.0, 540.0, -540.0, 1e6, -1e6, 1e15];
    for &lat in &lats {
        for &lon in &lons {
            for &r in &ress {
                p.push(Probe::Lookup(lon, lat, r));
            }
        }
    }
    // coordinates that are exactly corners / edge midpoints of cells (as the boundary call returns them),
    // at every supported resolution: valid inputs that must be answered
    {
        let mut pts: Vec<(f64, f64)> = Vec::new();
        let cells: Vec<u64> = (2..=6).flat_map(|r| rc::all_cells(r).into_iter().step_by(if tier == "quick" { 211 } else { 37 })).collect();
        for c in cells {
            if let Ok(ring) = subj::boundary(c, false, Some(2)) {
                pts.extend(ring);
            }
        }
        for (lon, lat) in pts {
            for r in 0..=29 {
                p.push(Probe::Lookup(lon, lat, r));
            }
        }
    }
    for &r in &ress {
        p.push(Probe::NumCells(r));
        p.push(Probe::CellArea(r));
    }
    for s in ["", "0", "ffffffffffffffff", "10000000000000000", "xyz", "-1", "+1", " 1", "0x1"] {
        p.push(Probe::HexParse(s.to_string()));
    }
    p
}

fn in_range(r: i32) -> bool {
    (-1..=29).contains(&r)
}

/// Is the probe in scope (honest fan-out <= 4^8)? Decided from the id's resolution as the subject
/// reads it (the cell it aliases) before the call.
fn in_scope(p: &Probe) -> bool {
    let sub_res = |c: u64| subj::resolution(c).unwrap_or(0).clamp(-1, 29);
    let fan = |c: u64, r: i32| -> bool {
        if !in_range(r) {
            return true; // no honest result at all: the call must be rejected, whatever the cell
        }
        let a = sub_res(c);
        let b = r.min(29);
        b < a || rc::fanout(a, b) <= 65536
    };
    match p {
        Probe::Children(c, Some(r)) => fan(*c, *r),
        Probe::Uncompact(v, r) => v.iter().any(|&c| sub_res(c) > *r) || v.iter().all(|&c| fan(c, *r)),
        _ => true,
    }
}

/// the canonical cell a non-canonical bit pattern aliases, as the subject itself reads it
fn alias_of(c: u64) -> Option<u64> {
    let cell = subj::deserialize(c).ok()?;
    let a = subj::serialize(&cell).ok()?;
    if rc::is_canonical(a) {
        Some(a)
    } else {
        None
    }
}

/// "rejected or treated as the canonical cell they alias": for a non-canonical id the call must
/// fail, or return exactly what it returns for the alias.
fn alias_verdict<T: PartialEq + std::fmt::Debug>(c: u64, got: &Result<T, String>, f: impl Fn(u64) -> Result<T, String>) -> Option<(String, String)> {
    if rc::is_canonical(c) {
        return None;
    }
    let g = match got {
        Ok(g) => g,
        Err(_) => return None,
    };
    match alias_of(c) {
        None => Some(("C14/noncell-accepted".to_string(), format!("{} is not a cell and aliases no canonical cell, but the call succeeded", subj::hex(c)))),
        Some(a) => match subj::guard(|| f(a)) {
            Ok(ref x) if x == g => None,
            other => Some(("C14/alias-inconsistent".to_string(), format!("{} aliases {} but the call returned {:?} instead of {:?}", subj::hex(c), subj::hex(a), trunc(&format!("{:?}", g)), trunc(&format!("{:?}", other))))),
        },
    }
}
fn trunc(s: &str) -> String {
    if s.len() > 160 {
        format!("{}...", &s[..160])
    } else {
        s.to_string()
    }
}

/// run one probe; returns violations (class, what)
pub fn run_probe(p: &Probe) -> Vec<(String, String)> {
    let mut out: Vec<(String, String)> = Vec::new();
    let mut bad = |c: &str, w: String| out.push((c.to_string(), w));
    let ids_valid = |v: &[u64], want: Option<i32>| -> Option<String> {
        for &x in v {
            match rc::resolution(x) {
                Some(r) if rc::is_canonical(x) && want.map(|w| w == r).unwrap_or(true) => {}
                _ => return Some(format!("returned {} which is not a canonical id{}", subj::hex(x), want.map(|w| format!(" of resolution {}", w)).unwrap_or_default())),
            }
        }
        None
    };
    macro_rules! guard_call {
        ($e:expr) => {
            match subj::guard_val(|| $e) {
                Ok(v) => v,
                Err(e) => {
                    bad("C14/panic", e);
                    return out;
                }
            }
        };
    }
    match p {
        Probe::Resolution(c) => {
            let r = guard_call!(a5::get_resolution(*c));
            if !in_range(r) {
                bad("C14/invalid-result", format!("get_resolution = {}", r));
            }
        }
        Probe::Centre(c) => {
            let f = |x: u64| a5::cell_to_lonlat(x).map(|l| (l.longitude().to_bits(), l.latitude().to_bits()));
            let r = guard_call!(f(*c));
            if let Ok((lo, la)) = r {
                let (lo, la) = (f64::from_bits(lo), f64::from_bits(la));
                if !lo.is_finite() || !la.is_finite() || la.abs() > 90.0 + 1e-9 {
                    bad("C14/invalid-result", format!("cell_to_lonlat = ({}, {})", lo, la));
                }
            }
            if let Some((c2, w)) = alias_verdict(*c, &r, f) {
                bad(&c2, format!("cell_to_lonlat: {}", w));
            }
        }
        Probe::Boundary(c, n, closed) => {
            let f = |x: u64| {
                a5::cell_to_boundary(x, Some(a5::core::cell::CellToBoundaryOptions { closed_ring: *closed, segments: *n }))
                    .map(|v| v.iter().map(|l| (l.longitude().to_bits(), l.latitude().to_bits())).collect::<Vec<_>>())
            };
            let r = guard_call!(f(*c));
            if let Ok(ring) = &r {
                if ring.iter().any(|l| !f64::from_bits(l.0).is_finite() || !f64::from_bits(l.1).is_finite()) {
                    bad("C14/invalid-result", "cell_to_boundary returned a non-finite coordinate".into());
                }
            }
            if let Some((c2, w)) = alias_verdict(*c, &r, f) {
                bad(&c2, format!("cell_to_boundary: {}", w));
            }
        }
        Probe::Children(c, r) => {
            let res = guard_call!(a5::cell_to_children(*c, *r));
            match res {
                Ok(v) => {
                    if let Some(t) = r {
                        if !in_range(*t) {
                            bad("C14/out-of-range-accepted", format!("cell_to_children accepted target resolution {} and returned {} ids", t, v.len()));
                            return out;
                        }
                    }
                    let want = match r {
                        Some(t) => Some(*t),
                        None => rc::resolution(*c).map(|x| x + 1),
                    };
                    if !rc::is_canonical(*c) {
                        if let Some((c2, w)) = alias_verdict(*c, &Ok(v.clone()), |x| a5::cell_to_children(x, *r)) {
                            bad(&c2, format!("cell_to_children: {}", w));
                        }
                    } else if let Some(w) = ids_valid(&v, want) {
                        bad("C14/invalid-result", format!("cell_to_children {}", w));
                    }
                }
                Err(_) => {}
            }
        }
        Probe::Parent(c, r) => {
            let res = guard_call!(a5::cell_to_parent(*c, *r));
            if let Ok(pid) = res {
                if let Some(t) = r {
                    if !in_range(*t) {
                        bad("C14/out-of-range-accepted", format!("cell_to_parent accepted target resolution {} and returned {}", t, subj::hex(pid)));
                        return out;
                    }
                }
                let want = match r {
                    Some(t) => Some(*t),
                    None => rc::resolution(*c).map(|x| x - 1),
                };
                if !rc::is_canonical(*c) {
                    if let Some((c2, w)) = alias_verdict(*c, &Ok(pid), |x| a5::cell_to_parent(x, *r)) {
                        bad(&c2, format!("cell_to_parent: {}", w));
                    }
                } else if rc::resolution(*c) == Some(-1) && r.is_none() {
                    // parent of the world cell: any Err or the world cell itself is acceptable
                    if pid != 0 {
                        bad("C14/invalid-result", format!("parent of the world cell = {}", subj::hex(pid)));
                    }
                } else if let Some(w) = ids_valid(&[pid], want) {
                    bad("C14/invalid-result", format!("cell_to_parent {}", w));
                }
            }
        }
        Probe::Lookup(lon, lat, r) => {
            let res = guard_call!(a5::lonlat_to_cell(LonLat::new(*lon, *lat), *r));
            match res {
                Ok(id) => {
                    if !in_range(*r) {
                        bad("C14/out-of-range-accepted", format!("lonlat_to_cell accepted resolution {} and returned {}", r, subj::hex(id)));
                    } else if rc::resolution(id) != Some(*r) || !rc::is_canonical(id) {
                        bad("C14/invalid-result", format!("lonlat_to_cell at resolution {} returned {}", r, subj::hex(id)));
                    }
                }
                Err(e) => {
                    if in_range(*r) {
                        bad("C14/valid-input-rejected", format!("lonlat_to_cell failed for a finite coordinate and resolution {}: {}", r, e));
                    }
                }
            }
        }
        Probe::Uncompact(v, r) => {
            let res = guard_call!(a5::uncompact(v, *r));
            if let Ok(o) = res {
                if !in_range(*r) {
                    if !v.is_empty() {
                        bad("C14/out-of-range-accepted", format!("uncompact accepted target resolution {} and returned {} ids", r, o.len()));
                    }
                } else if v.iter().any(|&c| !rc::is_canonical(c)) {
                    let al: Option<Vec<u64>> = v.iter().map(|&c| if rc::is_canonical(c) { Some(c) } else { alias_of(c) }).collect();
                    match al {
                        None => bad("C14/noncell-accepted", format!("uncompact accepted a bit pattern that is not a cell ({} outputs)", o.len())),
                        Some(al) => match subj::uncompact(&al, *r) {
                            Ok(ref x) if *x == o => {}
                            other => bad("C14/alias-inconsistent", format!("uncompact on non-canonical ids returned {} instead of what it returns for their aliases ({})", trunc(&format!("{:?}", o.iter().map(|&x| subj::hex(x)).collect::<Vec<_>>())), trunc(&format!("{:?}", other.map(|v| v.iter().map(|&x| subj::hex(x)).collect::<Vec<_>>()))))),
                        },
                    }
                } else if let Some(w) = ids_valid(&o, Some(*r)) {
                    bad("C14/invalid-result", format!("uncompact {}", w));
                }
            }
        }
        Probe::Compact(v) => {
            let res = guard_call!(a5::compact(v));
            if let Ok(o) = res {
                if v.iter().any(|&c| !rc::is_canonical(c)) {
                    let al: Option<Vec<u64>> = v.iter().map(|&c| if rc::is_canonical(c) { Some(c) } else { alias_of(c) }).collect();
                    match al {
                        None => bad("C14/noncell-accepted", format!("compact accepted a bit pattern that is not a cell and returned {}", trunc(&format!("{:?}", o.iter().map(|&x| subj::hex(x)).collect::<Vec<_>>())))),
                        Some(al) => match subj::compact(&al) {
                            Ok(ref x) if *x == o => {}
                            other => bad("C14/alias-inconsistent", format!("compact on non-canonical ids returned {} instead of what it returns for their aliases ({})", trunc(&format!("{:?}", o.iter().map(|&x| subj::hex(x)).collect::<Vec<_>>())), trunc(&format!("{:?}", other.map(|v| v.iter().map(|&x| subj::hex(x)).collect::<Vec<_>>()))))),
                        },
                    }
                } else if let Some(w) = ids_valid(&o, None) {
                    bad("C14/invalid-result", format!("compact {}", w));
                }
            }
        }
        Probe::NumCells(r) => {
            let n = guard_call!(a5::get_num_cells(*r));
            if (0..=29).contains(r) && ((n as f64) / (rc::num_cells(*r) as f64) - 1.0).abs() > 1e-12 {
                bad("C14/invalid-result", format!("get_num_cells({}) = {}", r, n));
            }
        }
        Probe::CellArea(r) => {
            let a = guard_call!(a5::cell_area(*r));
            if !a.is_finite() || a <= 0.0 {
                bad("C14/invalid-result", format!("cell_area({}) = {}", r, a));
            }
        }
        Probe::HexFmt(v) => {
            let _ = guard_call!(a5::u64_to_hex(*v));
        }
        Probe::HexParse(s) => {
            let _ = guard_call!(a5::hex_to_u64(s));
        }
        Probe::ManyThreads(n) => {
            let mut failed = 0u32;
            let mut first = String::new();
            for i in 0..*n {
                let r = std::thread::spawn(move || {
                    subj::guard(|| {
                        let lon = -170.0 + (i % 340) as f64;
                        let lat = -80.0 + (i % 160) as f64;
                        let c = a5::lonlat_to_cell(LonLat::new(lon, lat), (i % 30) as i32)?;
                        let _ = a5::cell_to_lonlat(c)?;
                        let _ = a5::cell_to_boundary(c, None)?;
                        Ok(c)
                    })
                })
                .join();
                match r {
                    Ok(Ok(_)) => {}
                    Ok(Err(e)) => {
                        failed += 1;
                        if first.is_empty() {
                            first = format!("thread #{}: {}", i, e);
                        }
                    }
                    Err(_) => {
                        failed += 1;
                        if first.is_empty() {
                            first = format!("thread #{} died", i);
                        }
                    }
                }
            }
            if failed > 0 {
                bad("C14/panic", format!("{} of {} short-lived threads (run one after the other) failed on ordinary lookup / centre / boundary calls; first: {}", failed, n, first));
            }
        }
        Probe::ShutdownHook => {
            // a value in a thread-local whose destructor uses the library (a flush-on-exit hook); it is
            // initialised BEFORE the library is first used on the thread, so it is destroyed after the
            // library's own per-thread state
            use std::sync::atomic::{AtomicI32, Ordering as O};
            static OUTCOME: AtomicI32 = AtomicI32::new(0);
            struct Hook;
            impl Drop for Hook {
                fn drop(&mut self) {
                    let r = subj::guard(|| {
                        let c = a5::lonlat_to_cell(LonLat::new(12.3, 45.6), 9)?;
                        let _ = a5::cell_to_lonlat(c)?;
                        let _ = a5::cell_to_boundary(c, None)?;
                        let _ = a5::cell_to_children(c, None)?;
                        Ok(())
                    });
                    OUTCOME.store(if r.is_ok() { 1 } else { 2 }, O::SeqCst);
                }
            }
            thread_local! { static HOOK: Hook = const { Hook }; }
            OUTCOME.store(0, O::SeqCst);
            let j = std::thread::spawn(|| {
                HOOK.with(|_| {});
                let _ = subj::lookup(1.0, 2.0, 5);
            })
            .join();
            match (j.is_ok(), OUTCOME.load(O::SeqCst)) {
                (true, 1) => {}
                (_, code) => bad("C14/panic", format!("ordinary calls made from a thread-local destructor during thread shutdown failed (thread joined cleanly: {}, hook outcome {}: 0 = never ran, 2 = panicked)", j.is_ok(), code)),
            }
        }
        Probe::Res0 => {
            let r = guard_call!(a5::get_res0_cells());
            match r {
                Ok(v) if v.len() == 12 && ids_valid(&v, Some(0)).is_none() => {}
                other => bad("C14/invalid-result", format!("get_res0_cells = {:?}", other)),
            }
        }
    }
    out
}

// ------------------------------------------------------------------ worker (child process)

pub fn worker_main(tier: &str, start: usize, end: usize) {
    // resource limits
    unsafe {
        let lim = libc::rlimit { rlim_cur: 1 << 30, rlim_max: 1 << 30 };
        libc::setrlimit(libc::RLIMIT_AS, &lim);
        let core = libc::rlimit { rlim_cur: 0, rlim_max: 0 };
        libc::setrlimit(libc::RLIMIT_CORE, &core);
    }
    let all = probes(tier);
    let current = Arc::new(AtomicU64::new(u64::MAX));
    let began = Arc::new(Mutex::new(std::time::Instant::now()));
    {
        let (current, began) = (current.clone(), began.clone());
        std::thread::spawn(move || loop {
            std::thread::sleep(std::time::Duration::from_millis(200));
            let c = current.load(Ordering::SeqCst);
            if c != u64::MAX && began.lock().unwrap().elapsed().as_secs_f64() > 10.0 {
                println!("T {}", c);
                let _ = std::io::stdout().flush();
                std::process::exit(3);
            }
        });
    }
    let stdout = std::io::stdout();
    for i in start..end.min(all.len()) {
        let p = &all[i];
        if !in_scope(p) {
            let mut o = stdout.lock();
            let _ = writeln!(o, "S {}", i);
            continue;
        }
        {
            let mut o = stdout.lock();
            let _ = writeln!(o, "B {}", i);
            let _ = o.flush();
        }
        *began.lock().unwrap() = std::time::Instant::now();
        current.store(i as u64, Ordering::SeqCst);
        let vs = run_probe(p);
        current.store(u64::MAX, Ordering::SeqCst);
        let mut o = stdout.lock();
        let _ = writeln!(o, "E {} {}", i, serde_json::to_string(&vs).unwrap());
        let _ = o.flush();
    }
}

// ------------------------------------------------------------------ supervisor

struct Outcome {
    viols: Vec<(usize, String, String)>,
    executed: u64,
    skipped: u64,
    crashes: u64,
}

fn supervise(bin: &str, tier: &str, start: usize, end: usize) -> Outcome {
    let mut out = Outcome { viols: Vec::new(), executed: 0, skipped: 0, crashes: 0 };
    let mut pos = start;
    while pos < end {
        let child = Command::new(bin).args(["C14", "--probe-worker", tier, &pos.to_string(), &end.to_string()]).stdout(Stdio::piped()).stderr(Stdio::null()).spawn();
        let mut child = match child {
            Ok(c) => c,
            Err(e) => {
                out.viols.push((pos, "MACHINERY/spawn".into(), format!("cannot start {}: {}", bin, e)));
                return out;
            }
        };
        let rd = BufReader::new(child.stdout.take().unwrap());
        let mut open: Option<usize> = None;
        let mut last_done = pos;
        let mut timed_out: Option<usize> = None;
        for line in rd.lines() {
            let line = match line {
                Ok(l) => l,
                Err(_) => break,
            };
            let mut it = line.splitn(3, ' ');
            match (it.next(), it.next().and_then(|x| x.parse::<usize>().ok())) {
                (Some("B"), Some(i)) => open = Some(i),
                (Some("S"), Some(i)) => {
                    out.skipped += 1;
                    last_done = i + 1;
                }
                (Some("E"), Some(i)) => {
                    open = None;
                    last_done = i + 1;
                    out.executed += 1;
                    if let Some(rest) = it.next() {
                        if let Ok(v) = serde_json::from_str::<Vec<(String, String)>>(rest) {
                            for (c, w) in v {
                                out.viols.push((i, c, w));
                            }
                        }
                    }
                }
                (Some("T"), Some(i)) => timed_out = Some(i),
                _ => {}
            }
        }
        let status = child.wait();
        if let Some(i) = timed_out {
            out.viols.push((i, "C14/timeout".into(), "the call did not return within 10 s".into()));
            out.crashes += 1;
            pos = i + 1;
        } else if let Some(i) = open {
            let how = match status {
                Ok(s) => format!("{}", s),
                Err(e) => format!("{}", e),
            };
            out.viols.push((i, "C14/abort".into(), format!("the process died inside the call ({}; 1 GiB address-space limit)", how)));
            out.crashes += 1;
            out.executed += 1;
            pos = i + 1;
        } else {
            pos = if last_done >= end { end } else { last_done.max(pos + 1) };
            if last_done < end && open.is_none() {
                // child ended early without an open probe: machinery problem, do not loop forever
                if !matches!(status, Ok(s) if s.success()) {
                    out.viols.push((pos, "MACHINERY/worker-exit".into(), "probe worker ended unexpectedly".into()));
                    return out;
                }
            }
        }
    }
    out
}

pub fn run(tier: &str, verif_dir: &str) -> Report {
    let mut rep = Report::new("exploration");
    let all = probes(tier);
    let n = all.len();
    let profiles = [("release", format!("{}/target/release/a5check", verif_dir)), ("checked", format!("{}/target/checked/a5check", verif_dir))];
    let mut per_profile = BTreeMap::new();
    let mut executed = 0u64;
    let mut skipped = 0u64;
    let mut crashes = 0u64;
    let mut by_fn: BTreeMap<String, u64> = BTreeMap::new();
    for p in &all {
        *by_fn.entry(p.to_json()["f"].as_str().unwrap().to_string()).or_insert(0) += 1;
    }
    for (name, bin) in profiles.iter() {
        if !std::path::Path::new(bin).exists() {
            rep.sink.push(viol("MACHINERY/missing-binary", format!("{} not built", bin), json!({"kind": "machinery"})));
            continue;
        }
        let workers = 16usize;
        let chunk = (n + workers - 1) / workers;
        let outs: Vec<Outcome> = std::thread::scope(|s| {
            let hs: Vec<_> = (0..workers)
                .map(|w| {
                    let bin = bin.clone();
                    s.spawn(move || supervise(&bin, tier, (w * chunk).min(n), ((w + 1) * chunk).min(n)))
                })
                .collect();
            hs.into_iter().map(|h| h.join().unwrap()).collect()
        });
        let mut pv = 0u64;
        for o in outs {
            executed += o.executed;
            skipped += o.skipped;
            crashes += o.crashes;
            for (i, c, w) in o.viols {
                pv += 1;
                let mut case = all[i].to_json();
                case["profile"] = json!(name);
                rep.sink.push(viol(&c, format!("[{} build] {}: {}", name, all[i].to_json()["f"].as_str().unwrap_or("?"), w), case));
            }
        }
        per_profile.insert(name.to_string(), pv);
    }
    let noncanon = id_classes().iter().filter(|&&c| !rc::is_canonical(c)).count();
    rep.set("evaluations", json!(executed));
    rep.set("distinct_nontrivial", json!(n as u64 - skipped / 2));
    rep.set("rule", json!(format!("{} probes per build profile: {} structured ids (every top-6 value x every marker position x 4 payload classes + single bits + extremes; {} of them non-canonical) x every id-taking function; a subset x {} resolution classes (-40..40 and i32 extremes) for children/parent/uncompact; 90 coordinate classes x resolution classes for lookups; metadata; executed in the release and the overflow-checked build, each inside child processes with a 1 GiB address-space limit and a 10 s watchdog; probes whose honest fan-out exceeds 4^8 are skipped ({}); distinct_nontrivial = distinct probes executed", n, id_classes().len(), noncanon, res_classes().len(), skipped)));
    rep.set("exhaustive", json!(true));
    rep.set("exhaustive_scope", json!("every probe of the stated catalogue in both build profiles"));
    rep.set("probes_per_function", json!(by_fn));
    rep.set("violations_per_profile", json!(per_profile));
    rep.set("process_deaths_and_timeouts", json!(crashes));
    rep.sample(all[n / 3].to_json());
    rep.sample(all[n - 40].to_json());
    rep.assume("latitudes beyond +-90 and non-finite coordinates are outside the property's domain and are not probed");
    rep.assume("calls whose honest result exceeds 4^8 cells are out of scope");
    rep
}

pub fn replay(case: &Value) -> Vec<Viol> {
    match Probe::from_json(case) {
        Some(p) => run_probe(&p).into_iter().map(|(c, w)| viol(&c, w, case.clone())).collect(),
        None => vec![],
    }
}
