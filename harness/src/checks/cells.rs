//! C04 (equal area), C11 (boundary ring well-formed), C12 (children overlap their parent).
use crate::enumerate as en;
use crate::ev::{viol, Report, Viol};
use crate::geo;
use crate::refcodec as rc;
use crate::refgeom as rg;
use crate::refgeom::V3;
use crate::subj;
use rayon::prelude::*;
use serde_json::{json, Value};
use std::sync::atomic::{AtomicU64, Ordering};
use std::sync::Mutex;

fn idcase(c: u64) -> Value {
    json!({"kind": "cell", "id": subj::hex(c)})
}

/// cells found by lookup around both poles at fine resolutions (POLECELLS) and along the antimeridian
pub fn special_cells(rmin: i32, rmax: i32, dense: bool) -> Vec<u64> {
    let mut out = Vec::new();
    for r in rmin..=rmax {
        let size = geo::cell_size(r);
        let steps = if dense { 40 } else { 12 };
        for pole in [1.0, -1.0] {
            for k in 0..steps {
                let colat = 0.7 * k as f64 * size; // radians on the authalic sphere
                for t in [0.3, 1.9, 3.5, 5.1] {
                    let v = rg::from_theta_phi(t, if pole > 0.0 { colat } else { rg::PI - colat });
                    let (lon, lat) = rg::vec_to_ll(v);
                    if let Ok(c) = subj::lookup(lon, lat, r) {
                        if rc::resolution(c) == Some(r) {
                            out.push(c);
                        }
                    }
                }
            }
        }
        for k in 0..(if dense { 37 } else { 13 }) {
            let lat = -90.0 + 180.0 * k as f64 / (if dense { 36.0 } else { 12.0 });
            for lon in [180.0, -180.0, 179.999999999, 87.0, 86.999999999, -273.0] {
                if let Ok(c) = subj::lookup(lon, lat, r) {
                    if rc::resolution(c) == Some(r) {
                        out.push(c);
                    }
                }
            }
        }
    }
    out.sort_unstable();
    out.dedup();
    out
}

// ---------------------------------------------------------------------------------------- C04

pub fn check_area(c: u64, n: i32, worst: &Mutex<f64>) -> Vec<Viol> {
    let r = rc::resolution(c).unwrap();
    let ring = match geo::ring_vectors(c, n) {
        Ok(x) => x,
        Err(e) => return vec![viol("C04/boundary-error", e, idcase(c))],
    };
    let a = rg::poly_area(&ring).abs();
    let want = 4.0 * rg::PI / rc::num_cells(r) as f64;
    let rel = (a / want - 1.0).abs();
    {
        let mut g = worst.lock().unwrap();
        if rel > *g {
            *g = rel;
        }
    }
    if !(rel <= 1e-4) {
        return vec![viol("C04/cell-area", format!("cell {} (r={}) covers {:.9e} sr measured from its boundary with {} segments per edge; sphere/N = {:.9e} (relative error {:.3e})", subj::hex(c), r, a, n, want, rel), idcase(c))];
    }
    vec![]
}


/// The same area measurement right after another request for the same cell on the same thread (a coarse ring,
/// a closed ring, the default ring, the centre): what a renderer or an area tool does. Six predecessors x every
/// cell; the finely subdivided ring that follows must enclose sphere/N within 1e-4 like any other.
pub fn check_area_after(c: u64, n: i32, only: Option<usize>) -> Vec<Viol> {
    let r = rc::resolution(c).unwrap();
    let want = 4.0 * rg::PI / rc::num_cells(r) as f64;
    const PRED: [&str; 6] = ["cell_to_boundary(segments 1, open)", "cell_to_boundary(segments 1, closed)", "cell_to_boundary(segments 2, open)", "cell_to_boundary(default)", "cell_to_lonlat", "cell_to_boundary(same segments, closed)"];
    for k in 0..6usize {
        if only.map(|o| o != k).unwrap_or(false) {
            continue;
        }
        match k {
            0 => drop(subj::boundary(c, false, Some(1))),
            1 => drop(subj::boundary(c, true, Some(1))),
            2 => drop(subj::boundary(c, false, Some(2))),
            3 => drop(subj::boundary_default(c)),
            4 => drop(subj::centre(c)),
            _ => drop(subj::boundary(c, true, Some(n))),
        }
        let ring = match geo::ring_vectors(c, n) {
            Ok(x) => x,
            Err(e) => return vec![viol("C04/boundary-error", e, idcase(c))],
        };
        let rel = (rg::poly_area(&ring).abs() / want - 1.0).abs();
        if !(rel <= 1e-4) {
            return vec![viol(
                "C04/cell-area-after-request",
                format!("cell {} (r={}): the boundary with {} segments per edge requested right after {} for the same cell has {} points and encloses sphere/N with relative error {:.3e}", subj::hex(c), r, n, PRED[k], ring.len(), rel),
                json!({"kind": "area_after", "id": subj::hex(c), "pred": k, "n": n}),
            )];
        }
    }
    vec![]
}

pub fn run_c04(tier: &str) -> Report {
    let mut rep = Report::new("exploration");
    let rmax = if tier == "quick" { 6 } else { 8 };
    let worst = Mutex::new(0.0f64);
    let mut evals = 0u64;
    let mut area_sums = Vec::new();
    let mut after_cells = 0u64;
    for r in 0..=rmax {
        let cells = rc::all_cells(r);
        let n = if r <= 2 { 64 } else { 32 };
        let vs: Vec<Viol> = cells.par_iter().flat_map(|&c| check_area(c, n, &worst)).collect();
        rep.sink.extend(vs);
        evals += cells.len() as u64;
        if r <= if tier == "quick" { 4 } else { 6 } {
            let vs: Vec<Viol> = cells.par_iter().flat_map(|&c| check_area_after(c, n, None)).collect();
            rep.sink.extend(vs);
            evals += 6 * cells.len() as u64;
            after_cells += cells.len() as u64;
        }
        // measure: all cell areas of a resolution sum to the sphere
        let total: f64 = cells.par_iter().map(|&c| geo::ring_vectors(c, n).map(|ring| rg::poly_area(&ring)).unwrap_or(0.0)).sum();
        let rel = (total / (4.0 * rg::PI) - 1.0).abs();
        area_sums.push(json!({"res": r, "relative_error": rel}));
        if !(rel <= 1e-4) {
            rep.sink.push(viol("C04/area-sum", format!("signed areas of all {} cells of resolution {} sum to {:.12} sr, the sphere has {:.12}", cells.len(), r, total, 4.0 * rg::PI), json!({"kind": "level", "res": r})));
        }
    }
    let fam = en::fam(2, 29);
    let deep: Vec<u64> = fam.into_iter().filter(|&c| rc::resolution(c).unwrap() > rmax).collect();
    let deep: Vec<u64> = if tier == "quick" { deep.into_iter().step_by(6).collect() } else { deep };
    let vs: Vec<Viol> = deep.par_iter().flat_map(|&c| check_area(c, 32, &worst)).collect();
    rep.sink.extend(vs);
    evals += deep.len() as u64;
    let special = special_cells(if tier == "quick" { 24 } else { 8 }, 29, tier != "quick");
    let vs: Vec<Viol> = special.par_iter().flat_map(|&c| check_area(c, 32, &worst)).collect();
    rep.sink.extend(vs);
    evals += special.len() as u64;
    // fine cells cut by the natural break lines of the coordinate functions (octant boundaries of the
    // azimuth and of the polar angle in the library's rotated frame, i.e. meridians lon = -93 + 45 k and the
    // parallels of authalic latitude 0 and +-45 deg; rays at multiples of 45 deg around face centres):
    // a series or table that changes branch there moves boundary points by ~1e-11 rad, which only the
    // area of a cell of resolution >= 24 straddling the line can show
    let mut line_cells: Vec<u64> = Vec::new();
    {
        let fine_res: &[i32] = if tier == "quick" { &[24, 27, 29] } else { &[20, 22, 24, 25, 26, 27, 28, 29] };
        let mut pts: Vec<(f64, f64)> = Vec::new();
        for k in 0..8 {
            let lon = -93.0 + 45.0 * k as f64;
            for lat in [-80.0, -61.0, -40.5, -20.25, 0.0, 19.75, 41.0, 59.5, 79.0] {
                pts.push((lon, lat));
            }
        }
        for k in 0..16 {
            let lon = -180.0 + 22.5 * k as f64 + 3.3;
            for alat in [0.0, 45.0, -45.0] {
                // geodetic latitude whose authalic latitude is alat (reference inverse by bisection)
                let (mut lo, mut hi) = (-90.0f64, 90.0f64);
                for _ in 0..60 {
                    let mid = 0.5 * (lo + hi);
                    if rg::authalic_lat(mid * rg::DEG) / rg::DEG < alat {
                        lo = mid;
                    } else {
                        hi = mid;
                    }
                }
                pts.push((lon, 0.5 * (lo + hi)));
            }
        }
        let f = rg::frame();
        for face in [0usize, 3, 8] {
            let c = f.centres[face];
            let v0 = f.vertices.iter().copied().filter(|v| rg::ang(*v, c) < 0.7).next().unwrap();
            let e1 = rg::unit(rg::sub(v0, rg::scale(c, rg::dot(v0, c))));
            let e2 = rg::cross(c, e1);
            for k in 0..8 {
                let a = k as f64 * rg::PI / 4.0;
                for d in [0.2f64, 0.45] {
                    let dir = rg::add(rg::scale(e1, a.cos()), rg::scale(e2, a.sin()));
                    let p = rg::unit(rg::add(rg::scale(c, d.cos()), rg::scale(dir, d.sin())));
                    pts.push(rg::vec_to_ll(p));
                }
            }
        }
        for (lon, lat) in pts {
            for &r in fine_res {
                if let Ok(c) = subj::lookup(lon, lat, r) {
                    if rc::resolution(c) == Some(r) {
                        line_cells.push(c);
                    }
                }
            }
        }
        line_cells.sort_unstable();
        line_cells.dedup();
    }
    let vs: Vec<Viol> = line_cells.par_iter().flat_map(|&c| check_area(c, 32, &worst)).collect();
    rep.sink.extend(vs);
    evals += line_cells.len() as u64;
    rep.set("fine_cells_on_break_lines_of_coordinate_functions", json!(line_cells.len()));
    // metadata
    let world = a5::cell_area(-1);
    let auth = rg::authalic_area_m2();
    if !((world / auth - 1.0).abs() <= 1e-7) {
        rep.sink.push(viol("C04/metadata-world", format!("cell_area(-1) = {} m^2, the WGS84 authalic sphere has {} m^2", world, auth), json!({"kind": "metadata", "res": -1})));
    }
    for r in 0..=29 {
        evals += 1;
        let a = subj::guard_val(|| a5::cell_area(r));
        let want = world / rc::num_cells(r) as f64;
        match a {
            Ok(a) if (a / want - 1.0).abs() <= 1e-12 => {}
            other => rep.sink.push(viol("C04/metadata", format!("cell_area({}) = {:?}, authalic area / number of cells = {}", r, other, want), json!({"kind": "metadata", "res": r}))),
        }
        let n = subj::guard_val(|| a5::get_num_cells(r));
        match n {
            Ok(n) if ((n as f64) / (rc::num_cells(r) as f64) - 1.0).abs() <= 1e-12 => {}
            other => rep.sink.push(viol("C04/metadata-count", format!("get_num_cells({}) = {:?}, the hierarchy has {}", r, other, rc::num_cells(r)), json!({"kind": "metadata", "res": r}))),
        }
    }
    rep.set("evaluations", json!(evals));
    rep.set("distinct_nontrivial", json!(evals - 30));
    rep.set("rule", json!(format!("every cell of resolution 0..{} (boundary with 32-64 segments per edge, independent spherical polygon area after the reference geodetic->authalic conversion) + {} digit-pattern family cells to r=29 + {} pole/antimeridian cells found by lookup; per-resolution sum of signed areas = 4 pi; metadata r=-1..29; distinct_nontrivial = distinct cells measured", rmax, deep.len(), special.len())));
    rep.set("exhaustive", json!(true));
    rep.set("exhaustive_scope", json!(format!("all cells with resolution <= {}", rmax)));
    rep.set("worst_relative_error", json!(*worst.lock().unwrap()));
    rep.set("area_sums", json!(area_sums));
    rep.set("cells_measured_again_after_each_of_6_other_requests", json!(after_cells));
    rep.sample(json!({"cell": subj::hex(deep[deep.len() / 2])}));
    rep.assume("resolutions above the exhaustive bound are covered on families and pole/antimeridian cells only");
    rep.assume("area measured with great-circle segments between boundary points; calibrated discretisation error < 2e-5 at n=32");
    rep
}

// ---------------------------------------------------------------------------------------- C11

pub fn check_ring(c: u64, fine: &[V3], worst_window: &Mutex<f64>) -> Vec<Viol> {
    let mut out = Vec::new();
    let r = rc::resolution(c).unwrap();
    let nv = if r == 1 { 3 } else { 5 };
    let centre = match subj::centre(c) {
        Ok((lon, lat)) => rg::ll_to_vec(lon, lat),
        Err(e) => return vec![viol("C11/centre-error", e, idcase(c))],
    };
    let north = [0.0, 0.0, 1.0];
    let south = [0.0, 0.0, -1.0];
    let size = geo::cell_size(r);
    let touches = |pole: V3| -> bool {
        if rg::ang(pole, centre) > 3.0 * size + 1e-6 {
            return false;
        }
        rg::winding(fine, pole).map(|w| w != 0).unwrap_or(false) || rg::dist_to_ring(fine, pole) <= 1e-3 * size + 1e-9
    };
    let pole_touching = touches(north) || touches(south);
    let corners1: Vec<V3> = match subj::boundary(c, false, Some(1)) {
        Ok(b) => b.iter().map(|&(lo, la)| rg::ll_to_vec(lo, la)).collect(),
        Err(e) => return vec![viol("C11/boundary-error", e, idcase(c))],
    };
    for closed in [true, false] {
        for seg in [Some(1), Some(2), Some(3), Some(7), Some(64), None] {
            let case = json!({"kind": "ring", "id": subj::hex(c), "closed": closed, "segments": seg});
            let b = match subj::guard(|| {
                a5::cell_to_boundary(c, Some(a5::core::cell::CellToBoundaryOptions { closed_ring: closed, segments: seg }))
                    .map(|v| v.iter().map(|l| (l.longitude(), l.latitude())).collect::<Vec<_>>())
            }) {
                Ok(b) => b,
                Err(e) => {
                    out.push(viol("C11/boundary-error", e, case));
                    continue;
                }
            };
            let extra = if closed { 1 } else { 0 };
            match seg {
                Some(n) => {
                    if b.len() != nv * n as usize + extra {
                        out.push(viol("C11/length", format!("{} points, expected {} x {} + {}", b.len(), nv, n, extra), case.clone()));
                        continue;
                    }
                }
                None => {
                    if b.len() < nv + extra || (b.len() - extra) % nv != 0 {
                        out.push(viol("C11/length", format!("default subdivision gives {} points, not a multiple of {} (+{})", b.len(), nv, extra), case.clone()));
                        continue;
                    }
                }
            }
            if closed && (b[0].0.to_bits() != b[b.len() - 1].0.to_bits() || b[0].1.to_bits() != b[b.len() - 1].1.to_bits()) {
                out.push(viol("C11/closure", "closed ring does not repeat its first point".into(), case.clone()));
            }
            if b.iter().any(|&(lo, la)| !lo.is_finite() || !la.is_finite()) {
                out.push(viol("C11/finite", "non-finite coordinate".into(), case.clone()));
                continue;
            }
            if b.iter().any(|&(_, la)| la.abs() > 90.0 + 1e-9) {
                out.push(viol("C11/lat-range", "latitude outside [-90, 90]".into(), case.clone()));
                continue;
            }
            let open: Vec<(f64, f64)> = if closed { b[..b.len() - 1].to_vec() } else { b.clone() };
            let ring: Vec<V3> = open.iter().map(|&(lo, la)| rg::ll_to_vec(lo, la)).collect();
            let area = rg::poly_area(&ring);
            if !(area > 0.0) {
                out.push(viol("C11/orientation", format!("ring is not counter-clockwise (signed area {:.3e})", area), case.clone()));
            }
            match rg::winding(&ring, centre) {
                Some(1) => {}
                w => out.push(viol("C11/centre-inside", format!("reported centre is not inside the ring (winding {:?})", w), case.clone())),
            }
            if !pole_touching {
                let (mn, mx) = open.iter().fold((f64::INFINITY, f64::NEG_INFINITY), |(a, b), &(lo, _)| (a.min(lo), b.max(lo)));
                {
                    let mut g = worst_window.lock().unwrap();
                    if mx - mn > *g {
                        *g = mx - mn;
                    }
                }
                if !(mx - mn < 180.0) {
                    out.push(viol("C11/lon-window", format!("longitudes span {:.6} degrees although the cell does not touch a pole", mx - mn), case.clone()));
                }
            }
            // corners are the same physical points for every n
            for (i, k) in corners1.iter().enumerate() {
                let d = ring.iter().map(|v| rg::ang(*v, *k)).fold(f64::INFINITY, f64::min);
                if !(d / rg::DEG <= 1e-9) {
                    out.push(viol("C11/corners", format!("corner {} of the n=1 ring is {:.3e} deg from the nearest point of this ring", i, d / rg::DEG), case.clone()));
                    break;
                }
            }
        }
    }
    out
}


/// Option histories: all sequences of length 3 over the alphabet {cell x, cell y} x {closed, open} x
/// segments in {1, 2, 3, 7, 64, default} (24 symbols, 13 824 sequences), each on one fresh thread. Every
/// ring must be the ring that the same request yields as the first call of a fresh thread: same
/// number of points, the same physical points within 1e-9 deg, and (closed) first point repeated.
/// A renderer that toggles `closed_ring` or the subdivision for one cell, or alternates two cells,
/// produces exactly such sequences; a single call per option combination never does.
const OPT_SEGS: [Option<i32>; 6] = [Some(1), Some(2), Some(3), Some(7), Some(64), None];
type Ring = Result<Vec<(f64, f64)>, String>;
fn ring_same(got: &Ring, cold: &Ring) -> Option<String> {
    match (got, cold) {
        (Ok(g), Ok(c)) => {
            if g.len() != c.len() {
                return Some(format!("{} points instead of {}", g.len(), c.len()));
            }
            for (i, (p, q)) in g.iter().zip(c.iter()).enumerate() {
                if !(p.0.is_finite() && p.1.is_finite()) {
                    return Some(format!("point {} is not finite", i));
                }
                let d = rg::ang(rg::ll_to_vec(p.0, p.1), rg::ll_to_vec(q.0, q.1)) / rg::DEG;
                if !(d <= 1e-9) {
                    return Some(format!("point {} is {:.3e} deg away from where the same request puts it on a fresh thread", i, d));
                }
            }
            None
        }
        (Err(_), Err(_)) => None,
        (Ok(_), Err(e)) => Some(format!("succeeds although the same request fails on a fresh thread ({})", e)),
        (Err(e), Ok(_)) => Some(format!("fails ({}) although the same request succeeds on a fresh thread", e)),
    }
}
fn opt_of(k: usize) -> (usize, bool, Option<i32>) {
    (k / 12, (k % 12) / 6 == 0, OPT_SEGS[k % 6])
}
pub enum OptMode {
    All,
    Seq([usize; 3]),
    Upto(usize),
}
pub fn option_histories(x: u64, y: u64, mode: OptMode) -> (u64, Vec<Viol>) {
    let cells = [x, y];
    let cold: Vec<Ring> = (0..24)
        .map(|k| {
            let (w, closed, seg) = opt_of(k);
            let c = cells[w];
            std::thread::spawn(move || subj::boundary(c, closed, seg)).join().unwrap_or_else(|_| Err("thread died".into()))
        })
        .collect();
    let mut out = Vec::new();
    // closed rings repeat their first point
    for k in 0..24 {
        let (w, closed, seg) = opt_of(k);
        if let (true, Ok(r)) = (closed, &cold[k]) {
            // (the world cell has no ring: its empty answer is part of the histories but carries no closure claim)
            if r.len() >= 2 && (r[0].0.to_bits() != r[r.len() - 1].0.to_bits() || r[0].1.to_bits() != r[r.len() - 1].1.to_bits()) {
                out.push(viol("C11/closure", "closed ring does not repeat its first point".into(), json!({"kind": "ring", "id": subj::hex(cells[w]), "closed": true, "segments": seg})));
            }
        }
    }
    let describe = |s: &[usize]| -> Value { Value::Array(s.iter().map(|&k| { let (w, closed, seg) = opt_of(k); json!({"id": subj::hex(cells[w]), "closed": closed, "segments": seg}) }).collect()) };
    // the requests of all 13 824 sequences one after the other on ONE fresh thread (every window of three
    // consecutive requests is one of the sequences; whatever came before is part of the history as well)
    let all: Vec<usize> = (0..24).flat_map(|a| (0..24).flat_map(move |b| (0..24).flat_map(move |c| [a, b, c]))).collect();
    let run: Vec<usize> = match mode {
        OptMode::All => all,
        OptMode::Seq(s) => s.to_vec(),
        OptMode::Upto(n) => all.into_iter().take(n).collect(),
    };
    let cold_ref = &cold;
    let run_ref = &run;
    let first_bad: Option<(usize, String)> = std::thread::scope(|sc| {
        sc.spawn(move || {
            for (i, &k) in run_ref.iter().enumerate() {
                let (w, closed, seg) = opt_of(k);
                let got = subj::boundary(cells[w], closed, seg);
                if let Some(why) = ring_same(&got, &cold_ref[k]) {
                    return Some((i, why));
                }
            }
            None
        })
        .join()
        .unwrap_or(Some((0, "the thread making the requests died".into())))
    });
    let n = (run.len() / 3) as u64;
    if let Some((i, why)) = first_bad {
        // shortest form first: the last three requests alone on a fresh thread
        let lo = i.saturating_sub(2);
        let win: Vec<usize> = run[lo..=i].to_vec();
        let again = if win.len() == 3 && !matches!(mode, OptMode::Seq(_)) { option_histories(x, y, OptMode::Seq([win[0], win[1], win[2]])).1 } else { vec![] };
        if let Some(v) = again.into_iter().find(|v| v.class == "C11/ring-depends-on-previous-requests") {
            out.push(v);
        } else {
            let case = match mode {
                OptMode::Seq(s) => json!({"kind": "option_history", "x": subj::hex(x), "y": subj::hex(y), "seq": s.to_vec()}),
                _ => json!({"kind": "option_history", "x": subj::hex(x), "y": subj::hex(y), "upto": i + 1}),
            };
            out.push(viol("C11/ring-depends-on-previous-requests", format!("request #{} of a sequence of requests on one thread (the last three: {}): {}", i + 1, describe(&win), why), case));
        }
    }
    (n, out)
}

pub fn run_c11(tier: &str) -> Report {
    let mut rep = Report::new("exploration");
    let rmax = if tier == "quick" { 4 } else { 7 };
    let worst_window = Mutex::new(0.0f64);
    let pole_cells = AtomicU64::new(0);
    let mut cells = en::all_upto(rmax);
    let special = special_cells(rmax + 1, 29, tier != "quick");
    let nspecial = special.len();
    cells.extend(special);
    let fam: Vec<u64> = en::fam(2, 29).into_iter().filter(|&c| rc::resolution(c).unwrap() > rmax).collect();
    let fam: Vec<u64> = if tier == "quick" { fam.into_iter().step_by(16).collect() } else { fam.into_iter().step_by(2).collect() };
    let nfam = fam.len();
    cells.extend(fam);
    cells.sort_unstable();
    cells.dedup();
    let vs: Vec<Viol> = cells
        .par_iter()
        .flat_map(|&c| {
            let fine = match geo::ring_vectors(c, 64) {
                Ok(f) => f,
                Err(e) => return vec![viol("C11/boundary-error", e, idcase(c))],
            };
            let size = geo::cell_size(rc::resolution(c).unwrap());
            for pole in [[0.0, 0.0, 1.0], [0.0, 0.0, -1.0]] {
                if rg::ang(pole, fine[0]) < 3.0 * size && rg::winding(&fine, pole).map(|w| w != 0).unwrap_or(false) {
                    pole_cells.fetch_add(1, Ordering::Relaxed);
                }
            }
            check_ring(c, &fine, &worst_window)
        })
        .collect();
    rep.sink.extend(vs);
    // locate, then draw: the cell a lookup returns is drawn right away on the same (fresh) thread. The
    // points are cell corners and edge midpoints (lookups there are often answered by a later probe or
    // by the nearest-cell fallback) and interior points; the ring of the answered cell must pass the
    // same tests as any other ring (in particular surround the cell's centre).
    let located;
    {
        let src: Vec<u64> = rc::all_cells(3).into_iter().step_by(if tier == "quick" { 9 } else { 2 }).collect();
        let mut jobs: Vec<(f64, f64, i32)> = Vec::new();
        for (k, &c) in src.iter().enumerate() {
            if let Ok(ring) = subj::boundary(c, false, Some(2)) {
                for (j, &(lon, lat)) in ring.iter().enumerate() {
                    for r in [4 + ((k + j) % 3) as i32, 9 + ((k + 2 * j) % 7) as i32, 20 + ((k + j) % 10) as i32] {
                        jobs.push((lon, lat, r));
                    }
                }
            }
            if let Ok((lon, lat)) = subj::centre(c) {
                jobs.push((lon, lat, 5 + (k % 20) as i32));
            }
        }
        located = jobs.len() as u64;
        let vs: Vec<Viol> = jobs
            .par_iter()
            .flat_map(|&(lon, lat, r)| {
                std::thread::scope(|sc| {
                    sc.spawn(|| {
                        let id = match subj::lookup(lon, lat, r) {
                            Ok(id) if rc::resolution(id) == Some(r) => id,
                            _ => return vec![], // C01's business
                        };
                        let fine = match geo::ring_vectors(id, 64) {
                            Ok(f) => f,
                            Err(e) => return vec![viol("C11/boundary-error", e, idcase(id))],
                        };
                        let w = Mutex::new(0.0f64);
                        check_ring(id, &fine, &w)
                            .into_iter()
                            .map(|mut v| {
                                v.what = format!("{} [ring drawn right after lonlat_to_cell({}, {}, {}) returned this cell on the same thread]", v.what, lon, lat, r);
                                v.case = json!({"kind": "located", "lon": lon, "lat": lat, "res": r});
                                v
                            })
                            .take(1)
                            .collect()
                    })
                    .join()
                    .unwrap()
                })
            })
            .collect();
        rep.sink.extend(vs);
    }
    // rings of different lengths of cells spread around the globe, all ordered pairs (A drawn long, then
    // B drawn short, and the reverse) on one fresh thread: the short ring must be bit-identical to the same
    // ring drawn first on a fresh thread
    let mut ring_pairs = 0u64;
    {
        let mut cells_g: Vec<u64> = Vec::new();
        for k in 0..12 {
            for lat in [7.0, -52.0] {
                if let Ok(c) = subj::lookup(-175.0 + 30.0 * k as f64, lat, 3 + (k % 3) as i32) {
                    cells_g.push(c);
                }
            }
        }
        cells_g.dedup();
        let ns = [Some(1), Some(64), None, Some(7)];
        let cold: Vec<Vec<Result<Vec<(f64, f64)>, String>>> = cells_g
            .iter()
            .map(|&c| ns.iter().map(|&n| std::thread::scope(|sc| sc.spawn(move || subj::boundary(c, true, n)).join().unwrap())).collect())
            .collect();
        let (n, vs) = std::thread::scope(|sc| {
            sc.spawn(|| {
                let mut n = 0u64;
                for (i, &a) in cells_g.iter().enumerate() {
                    for (j, &b) in cells_g.iter().enumerate() {
                        for (ka, &na) in ns.iter().enumerate() {
                            for (kb, &nb) in ns.iter().enumerate() {
                                if ka == kb {
                                    continue;
                                }
                                let _ = subj::boundary(a, true, na);
                                let got = subj::boundary(b, true, nb);
                                n += 1;
                                let same = match (&got, &cold[j][kb]) {
                                    (Ok(x), Ok(y)) => x.len() == y.len() && x.iter().zip(y.iter()).all(|(p, q)| p.0.to_bits() == q.0.to_bits() && p.1.to_bits() == q.1.to_bits()),
                                    (Err(_), Err(_)) => true,
                                    _ => false,
                                };
                                if !same {
                                    let _ = i;
                                    return (n, vec![viol("C11/ring-depends-on-previous-ring", format!("the ring of {} with segments {:?} differs from the same ring drawn first on a fresh thread when it is drawn right after the ring of {} with segments {:?}", subj::hex(b), nb, subj::hex(a), na), json!({"kind": "ring_pair", "a": subj::hex(a), "na": na, "b": subj::hex(b), "nb": nb}))]);
                                }
                            }
                        }
                    }
                }
                (n, vec![])
            })
            .join()
            .unwrap()
        });
        ring_pairs += n;
        rep.sink.extend(vs);
    }
    // option histories (see `option_histories`)
    {
        let mut pairs: Vec<(u64, u64)> = Vec::new();
        let b = rc::all_cells(0);
        let q = rc::all_cells(1);
        pairs.push((b[0], b[9])); // the two polar base cells
        pairs.push((q[7], b[3])); // a quintant (3 corners) and a base cell
        pairs.push((0, q[31])); // the world cell and a quintant
        for (k, (lon, lat, r)) in [(179.99, 10.0, 3), (12.3, 45.6, 5), (-93.0, 89.9, 7), (87.0, -89.99, 14), (51.0, 26.0, 9), (-57.0, -26.6, 22), (0.0, 0.0, 29), (100.0, -40.0, 12)].into_iter().enumerate() {
            if let Ok(c) = subj::lookup(lon, lat, r) {
                // the cell with a sibling, with its parent, or with a far-away cell of another resolution
                let other = match k % 3 {
                    0 => rc::children(rc::parent(c).unwrap()).into_iter().find(|&s| s != c).unwrap_or(c),
                    1 => rc::parent(c).unwrap(),
                    _ => subj::lookup(-lon, -lat * 0.5, (r + 3).min(29)).unwrap_or(c),
                };
                pairs.push((c, other));
            }
        }
        let pairs: Vec<(u64, u64)> = if tier == "quick" { pairs.into_iter().step_by(2).collect() } else { pairs };
        let res: Vec<(u64, Vec<Viol>)> = pairs.par_iter().map(|&(x, y)| option_histories(x, y, OptMode::All)).collect();
        let mut n = 0u64;
        for (k, v) in res {
            n += k;
            rep.sink.extend(v);
        }
        rep.set("option_histories", json!({"cell_pairs": pairs.len(), "sequences_of_3_requests": n, "alphabet": "2 cells x closed/open x segments in {1,2,3,7,64,default}"}));
    }
    rep.set("ring_pairs_on_one_thread", json!(ring_pairs));
    rep.set("cells_drawn_right_after_being_located", json!(located));
    rep.set("evaluations", json!(cells.len() as u64 * 12 + located));
    rep.set("distinct_nontrivial", json!(cells.len() as u64));
    rep.set("rule", json!(format!("every cell of resolution 0..{} + {} pole/antimeridian cells found by lookup at r={}..29 + {} family cells, each x closed/open x segments in {{1,2,3,7,64,default}}: length, closure, finiteness, latitude range, counter-clockwise (independent signed area), centre inside (winding number), 180-degree longitude window unless a pole is inside or within 1e-3 cell sizes of the fine ring, corner points identical for every n; distinct_nontrivial = distinct cells", rmax, nspecial, rmax + 1, nfam)));
    rep.set("exhaustive", json!(true));
    rep.set("exhaustive_scope", json!(format!("all cells with resolution <= {} x 12 option combinations", rmax)));
    rep.set("pole_containing_cells_seen", json!(pole_cells.load(Ordering::Relaxed)));
    rep.set("widest_non_polar_ring_deg", json!(*worst_window.lock().unwrap()));
    rep.sample(json!({"cell": subj::hex(cells[cells.len() / 2]), "closed": true, "segments": 7}));
    rep.assume("finer resolutions are covered on pole/antimeridian cells and families only");
    rep
}

// ---------------------------------------------------------------------------------------- C12

pub fn check_parent(p: u64, stats: &Mutex<[f64; 3]>) -> Vec<Viol> {
    let mut out = Vec::new();
    let r = rc::resolution(p).unwrap();
    let (_, ppoly) = match geo::cell_poly(p) {
        Ok(x) => x,
        Err(e) => return vec![viol("C12/pentagon-error", e, idcase(p))],
    };
    let parea = rg::shoelace(&ppoly);
    let pc = match subj::centre(p) {
        Ok((lo, la)) => rg::ll_to_vec(lo, la),
        Err(e) => return vec![viol("C12/centre-error", e, idcase(p))],
    };
    let kids = match subj::children(p, None) {
        Ok(k) => k,
        Err(e) => return vec![viol("C12/children-error", e, idcase(p))],
    };
    let reach = 0.8 * (4.0 * rg::PI / rc::num_cells(r) as f64).sqrt();
    let mut covered = 0.0;
    for &k in &kids {
        let case = json!({"kind": "parent_child", "parent": subj::hex(p), "child": subj::hex(k)});
        let (_, kpoly) = match geo::cell_poly(k) {
            Ok(x) => x,
            Err(e) => {
                out.push(viol("C12/pentagon-error", e, case));
                continue;
            }
        };
        let karea = rg::shoelace(&kpoly);
        let inter = rg::shoelace(&rg::clip_convex(&kpoly, &ppoly)).abs();
        covered += inter;
        let frac = inter / karea;
        if !(frac > 1e-6) {
            out.push(viol("C12/child-overlaps-parent", format!("child shares {:.3e} of its area with the parent", frac), case.clone()));
        }
        match subj::centre(k) {
            Ok((lo, la)) => {
                let d = rg::ang(rg::ll_to_vec(lo, la), pc);
                {
                    let mut g = stats.lock().unwrap();
                    g[0] = g[0].min(frac);
                    g[2] = g[2].max(d / (reach / 0.8));
                }
                if !(d <= reach) {
                    out.push(viol("C12/centre-reach", format!("child centre is {:.4} sqrt(parent area) from the parent centre (limit 0.8)", d / (reach / 0.8)), case));
                }
            }
            Err(e) => out.push(viol("C12/centre-error", e, case)),
        }
    }
    let cover = covered / parea;
    {
        let mut g = stats.lock().unwrap();
        g[1] = g[1].min(cover);
    }
    if !(cover > 0.5) {
        out.push(viol("C12/children-cover-parent", format!("children cover {:.4} of the parent's area (must exceed 0.5)", cover), idcase(p)));
    }
    out
}


/// Column-major order. The ordinary pass asks for a parent and then its children, so consecutive requests stay
/// on one face. Here the parents' centres come from one thread (face by face) and the children's centres from
/// another in column-major order: for a fixed curve position and child index, the corresponding child of every
/// (segment, face) in turn (segment-major and face-major), so that consecutive requests differ in the face or in
/// the segment only. The reach bound must hold all the same.
pub fn column_major(r: i32) -> (u64, Vec<Viol>) {
    let ns = 1u64 << (2 * (r - 1).max(0));
    let svals: Vec<u64> = if ns <= 64 { (0..ns).collect() } else { (0..64).map(|k| k * (ns / 64) + (k % 3)).collect() };
    let reach = 0.8 * (4.0 * rg::PI / rc::num_cells(r) as f64).sqrt();
    let mut out = Vec::new();
    let mut n = 0u64;
    for &s in &svals {
        let parent = |face: u64, q: u64| rc::encode(rc::Tuple { face, quintant: q, s, res: r });
        let pc: Vec<Option<V3>> = std::thread::scope(|sc| {
            sc.spawn(|| (0..12u64).flat_map(|f| (0..5u64).map(move |q| (f, q))).map(|(f, q)| parent(f, q).and_then(|p| subj::centre(p).ok()).map(|(lo, la)| rg::ll_to_vec(lo, la))).collect())
                .join()
                .unwrap_or_default()
        });
        if pc.len() != 60 {
            continue;
        }
        for order in 0..2 {
            let bad = std::thread::scope(|sc| {
                let pc = &pc;
                sc.spawn(move || {
                    let mut cnt = 0u64;
                    for j in 0..4usize {
                        for a in 0..(if order == 0 { 5u64 } else { 12 }) {
                            for b in 0..(if order == 0 { 12u64 } else { 5 }) {
                                let (f, q) = if order == 0 { (b, a) } else { (a, b) };
                                let p = match parent(f, q) {
                                    Some(p) => p,
                                    None => continue,
                                };
                                let kids = rc::children(p);
                                if j >= kids.len() {
                                    continue;
                                }
                                cnt += 1;
                                if let (Ok((lo, la)), Some(pcv)) = (subj::centre(kids[j]), pc[(f * 5 + q) as usize]) {
                                    let d = rg::ang(rg::ll_to_vec(lo, la), pcv);
                                    if !(d <= reach) {
                                        return (cnt, Some(viol(
                                            "C12/centre-reach-column-major",
                                            format!("child {} of {}: its centre, requested right after the corresponding child on another {}, is {:.4} sqrt(parent area) from the parent centre (limit 0.8)", subj::hex(kids[j]), subj::hex(p), if order == 0 { "face" } else { "segment" }, d / reach * 0.8),
                                            json!({"kind": "column_major", "res": r}),
                                        )));
                                    }
                                }
                            }
                        }
                    }
                    (cnt, None)
                })
                .join()
                .unwrap_or((0, None))
            });
            n += bad.0;
            if let Some(v) = bad.1 {
                out.push(v);
                return (n, out);
            }
        }
    }
    (n, out)
}

pub fn run_c12(tier: &str) -> Report {
    let mut rep = Report::new("exploration");
    let rmax = if tier == "quick" { 7 } else { 9 };
    let stats = Mutex::new([f64::INFINITY, f64::INFINITY, 0.0]);
    let mut parents = en::all_upto(rmax);
    let nall = parents.len();
    let fam: Vec<u64> = en::fam(2, 28).into_iter().filter(|&c| rc::resolution(c).unwrap() > rmax).collect();
    let fam: Vec<u64> = if tier == "quick" { fam.into_iter().step_by(4).collect() } else { fam };
    parents.extend(fam.iter().copied());
    let vs: Vec<Viol> = parents.par_iter().flat_map(|&p| check_parent(p, &stats)).collect();
    rep.sink.extend(vs);
    let cm: Vec<(u64, Vec<Viol>)> = (2..=if tier == "quick" { 5 } else { 8 }).collect::<Vec<i32>>().par_iter().map(|&r| column_major(r)).collect();
    let mut cm_calls = 0u64;
    for (k, v) in cm {
        cm_calls += k;
        rep.sink.extend(v);
    }
    rep.set("children_located_in_column_major_order", json!(cm_calls));
    let s = stats.lock().unwrap();
    rep.set("evaluations", json!(parents.len() as u64 + cm_calls));
    rep.set("distinct_nontrivial", json!(parents.len() as u64));
    rep.set("rule", json!(format!("every parent of resolution 0..{} ({} cells) + {} family parents to r=28, with all children: planar convex clipping of child and parent polygons (same face plane), union cover > 1/2, spherical centre distance <= 0.8 sqrt(parent area); distinct_nontrivial = distinct parents", rmax, nall, fam.len())));
    rep.set("exhaustive", json!(true));
    rep.set("exhaustive_scope", json!(format!("all parents with resolution <= {}", rmax)));
    rep.set("min_child_overlap_fraction", json!(s[0]));
    rep.set("min_cover_fraction", json!(s[1]));
    rep.set("max_centre_distance_in_sqrt_parent_area", json!(s[2]));
    rep.sample(json!({"parent": subj::hex(parents[nall / 2])}));
    rep.assume("deeper parents are covered on digit-pattern families only (every face x quintant x 26 patterns x every level)");
    rep
}

pub fn replay(prop: &str, case: &Value) -> Vec<Viol> {
    if prop == "C12" && case["kind"] == "column_major" {
        return column_major(case["res"].as_i64().unwrap_or(3) as i32).1;
    }
    if prop == "C11" && case["kind"] == "ring_pair" {
        let hx = |k: &str| u64::from_str_radix(case[k].as_str().unwrap(), 16).unwrap();
        let (a, b) = (hx("a"), hx("b"));
        let na = case["na"].as_i64().map(|x| x as i32);
        let nb = case["nb"].as_i64().map(|x| x as i32);
        let cold = std::thread::spawn(move || subj::boundary(b, true, nb)).join().unwrap();
        let case2 = case.clone();
        return std::thread::spawn(move || {
            let _ = subj::boundary(a, true, na);
            let got = subj::boundary(b, true, nb);
            if format!("{:?}", got) != format!("{:?}", cold) {
                vec![viol("C11/ring-depends-on-previous-ring", "the ring differs from the same ring drawn first on a fresh thread".into(), case2)]
            } else {
                vec![]
            }
        })
        .join()
        .unwrap_or_default();
    }
    if prop == "C11" && case["kind"] == "option_history" {
        let hx = |k: &str| u64::from_str_radix(case[k].as_str().unwrap(), 16).unwrap();
        let sq: Vec<usize> = case["seq"].as_array().map(|a| a.iter().filter_map(|v| v.as_u64().map(|x| x as usize)).collect()).unwrap_or_default();
        if let Some(n) = case["upto"].as_u64() {
            return option_histories(hx("x"), hx("y"), OptMode::Upto(n as usize)).1;
        }
        if sq.len() != 3 {
            return vec![];
        }
        return option_histories(hx("x"), hx("y"), OptMode::Seq([sq[0], sq[1], sq[2]])).1;
    }
    if prop == "C11" && case["kind"] == "located" {
        let (lon, lat, r) = (case["lon"].as_f64().unwrap(), case["lat"].as_f64().unwrap(), case["res"].as_i64().unwrap() as i32);
        let case2 = case.clone();
        return std::thread::spawn(move || {
            let id = match subj::lookup(lon, lat, r) {
                Ok(id) => id,
                Err(_) => return vec![],
            };
            match geo::ring_vectors(id, 64) {
                Ok(f) => check_ring(id, &f, &Mutex::new(0.0)),
                Err(e) => vec![viol("C11/boundary-error", e, case2)],
            }
        })
        .join()
        .unwrap_or_default();
    }
    let id = case["id"].as_str().or(case["parent"].as_str()).map(|s| u64::from_str_radix(s, 16).unwrap());
    if let (true, Some(c)) = (prop == "C04" && case["kind"] == "area_after", id) {
        let (k, n) = (case["pred"].as_u64().unwrap_or(0) as usize, case["n"].as_i64().unwrap_or(32) as i32);
        return std::thread::spawn(move || check_area_after(c, n, Some(k))).join().unwrap_or_default();
    }
    match (prop, id) {
        ("C04", Some(c)) => check_area(c, 32, &Mutex::new(0.0)),
        ("C11", Some(c)) => match geo::ring_vectors(c, 64) {
            Ok(f) => check_ring(c, &f, &Mutex::new(0.0)),
            Err(e) => vec![viol("C11/boundary-error", e, case.clone())],
        },
        ("C12", Some(c)) => check_parent(c, &Mutex::new([f64::INFINITY, f64::INFINITY, 0.0])),
        _ => vec![],
    }
}
