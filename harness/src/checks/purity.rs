//! C13 — every call is a pure function of its arguments: no history or thread effects.
//! (a) histories: explicit-state exploration of the projection memo tables (`memo`), and pairs /
//!     triples of public API calls in fresh OS threads;
//! (b) schedules: stateless, preemption-bounded exploration of real OS threads under a baton
//!     scheduler driven by the H3 hook points (`sched`), with warm and cold (fresh process) globals.
use crate::ev::{viol, Report, Viol};
use crate::geo;
use crate::refgeom as rg;
use crate::refgeom::{P2, V3};
use crate::subj;
use a5::coordinate_systems::{Face, LonLat};
use a5::projections::dodecahedron::DodecahedronProjection;
use a5::verif::{Kind, Point};
use rayon::prelude::*;
use serde_json::{json, Value};
use std::collections::{BTreeMap, BTreeSet, HashMap, HashSet, VecDeque};
use std::sync::atomic::{AtomicU64, Ordering};
use std::sync::{Condvar, Mutex};

// ======================================================================== (a) memo histories

#[derive(Clone, Copy, Debug, PartialEq, Eq, Hash, PartialOrd, Ord)]
pub struct POp {
    pub face: u8,
    pub sector: u8,
    pub beyond: bool,
    pub forward: bool,
    /// the point lies exactly on the ray that separates this sector from the previous one
    pub on_seam: bool,
}
impl POp {
    fn json(&self) -> Value {
        json!({"face": self.face, "sector": self.sector, "beyond_edge": self.beyond, "on_seam": self.on_seam, "dir": if self.forward { "forward" } else { "inverse" }})
    }
    fn from_json(v: &Value) -> POp {
        POp { face: v["face"].as_u64().unwrap() as u8, sector: v["sector"].as_u64().unwrap() as u8, beyond: v["beyond_edge"].as_bool().unwrap(), forward: v["dir"] == "forward", on_seam: v["on_seam"].as_bool().unwrap_or(false) }
    }
}
fn plane_point(op: POp) -> P2 {
    if op.on_seam {
        // sector 0: y is exactly 0.0; other sectors: as close to the ray as cos/sin allow
        let a = 36.0 * op.sector as f64 * rg::DEG;
        let k = (a / (72.0 * rg::DEG)).round();
        let beta = a - k * 72.0 * rg::DEG;
        let edge = geo::face_inradius() / beta.cos();
        let r = if op.beyond { 1.04 * edge } else { 0.55 * edge };
        return if op.sector == 0 { [r, 0.0] } else if op.sector == 5 { [-r, 0.0] } else { [r * a.cos(), r * a.sin()] };
    }
    let a = (36.0 * op.sector as f64 + 13.0) * rg::DEG;
    let k = (a / (72.0 * rg::DEG)).round();
    let beta = a - k * 72.0 * rg::DEG;
    let edge = geo::face_inradius() / beta.cos();
    let r = if op.beyond { 1.08 * edge } else { 0.55 * edge };
    [r * a.cos(), r * a.sin()]
}
pub fn all_pops() -> Vec<POp> {
    let mut v = Vec::new();
    for face in 0..12 {
        for sector in 0..10 {
            for beyond in [false, true] {
                for forward in [false, true] {
                    v.push(POp { face, sector, beyond, forward, on_seam: false });
                    v.push(POp { face, sector, beyond, forward, on_seam: true });
                }
            }
        }
    }
    v
}

type Res = Vec<u64>;
fn err_bits(e: &str) -> Res {
    vec![u64::MAX, crate::ev::fnv(e)]
}

/// sphere input of a forward op: the (cold) inverse image of its plane point, computed once
fn sphere_inputs(ops: &[POp]) -> HashMap<POp, V3> {
    let mut m = HashMap::new();
    for &op in ops {
        let q = plane_point(op);
        let v = subj::guard(|| {
            let mut inst = DodecahedronProjection::new()?;
            inst.inverse(Face::new(q[0], q[1]), op.face).map(subj::sph_to_vec)
        })
        .unwrap_or([0.0, 0.0, 1.0]);
        m.insert(op, v);
    }
    m
}

fn apply(inst: &mut DodecahedronProjection, op: POp, inputs: &HashMap<POp, V3>) -> Res {
    let r = subj::guard(|| {
        if op.forward {
            let v = inputs[&op];
            inst.forward(subj::sph(v), op.face).map(|f| vec![f.x().to_bits(), f.y().to_bits()])
        } else {
            let q = plane_point(op);
            inst.inverse(Face::new(q[0], q[1]), op.face).map(|s| vec![s.theta().get().to_bits(), s.phi().get().to_bits()])
        }
    });
    match r {
        Ok(v) => v,
        Err(e) => err_bits(&e),
    }
}

type Image = (Vec<Option<[u64; 6]>>, Vec<Option<[u64; 9]>>);
fn bitmap(img: &Image) -> Vec<u16> {
    let mut v = Vec::new();
    for (i, s) in img.0.iter().enumerate() {
        if s.is_some() {
            v.push(i as u16);
        }
    }
    for (i, s) in img.1.iter().enumerate() {
        if s.is_some() {
            v.push(1000 + i as u16);
        }
    }
    v
}

pub struct MemoCtx {
    pub ops: Vec<POp>,
    pub inputs: HashMap<POp, V3>,
    pub cold: HashMap<POp, Res>,
    pub canon_f: Vec<Option<[u64; 6]>>,
    pub canon_s: Vec<Option<[u64; 9]>>,
}

/// step 1: singles — cold results and canonical slot values
pub fn memo_setup() -> (MemoCtx, Vec<Viol>) {
    let ops = all_pops();
    let inputs = sphere_inputs(&ops);
    let mut cold = HashMap::new();
    let mut canon_f: Vec<Option<[u64; 6]>> = vec![None; 30];
    let mut canon_s: Vec<Option<[u64; 9]>> = vec![None; 240];
    let mut out = Vec::new();
    for &op in &ops {
        // a fresh instance that cannot be created is a history effect of the instances created before it
        let (mut inst, mut inst2) = match (subj::guard(DodecahedronProjection::new), subj::guard(DodecahedronProjection::new)) {
            (Ok(a), Ok(b)) => (a, b),
            (Err(e), _) | (_, Err(e)) => {
                out.push(viol("C13/op-error", format!("a fresh projection instance could not be created after {} earlier instances: {}", cold.len() * 2, e), json!({"kind": "memo_history", "ops": [op.json()]})));
                cold.insert(op, err_bits(&e));
                continue;
            }
        };
        let r = apply(&mut inst, op, &inputs);
        // a second fresh instance must give the same bits (determinism of the cold path)
        if apply(&mut inst2, op, &inputs) != r {
            out.push(viol("C13/cold-nondeterministic", "the same first call on two fresh instances gives different bits".into(), json!({"kind": "memo_history", "ops": [op.json()]})));
        }
        if r[0] == u64::MAX {
            out.push(viol("C13/op-error", "projection op failed on a fresh instance".into(), json!({"kind": "memo_history", "ops": [op.json()]})));
        }
        cold.insert(op, r);
        let img = inst.verif_memo_bits();
        for (i, s) in img.0.iter().enumerate() {
            if let Some(v) = s {
                match canon_f[i] {
                    None => canon_f[i] = Some(*v),
                    Some(c) if c == *v => {}
                    Some(_) => out.push(viol("C13/slot-not-canonical", format!("face-triangle slot {} holds different values after different first calls", i), json!({"kind": "memo_history", "ops": [op.json()]}))),
                }
            }
        }
        for (i, s) in img.1.iter().enumerate() {
            if let Some(v) = s {
                match canon_s[i] {
                    None => canon_s[i] = Some(*v),
                    Some(c) if c == *v => {}
                    Some(_) => out.push(viol("C13/slot-not-canonical", format!("spherical-triangle slot {} holds different values after different first calls", i), json!({"kind": "memo_history", "ops": [op.json()]}))),
                }
            }
        }
    }
    (MemoCtx { ops, inputs, cold, canon_f, canon_s }, out)
}

/// run a history on a fresh instance; every result must equal its cold value; every filled slot must
/// hold its canonical value
pub fn check_history(ctx: &MemoCtx, hist: &[POp]) -> (Vec<u16>, Vec<Viol>) {
    if crate::ev::flooded() {
        return (vec![], vec![]);
    }
    let mut out = Vec::new();
    let mut inst = match DodecahedronProjection::new() {
        Ok(i) => i,
        Err(e) => return (vec![], vec![viol("C13/new-error", e, json!({"kind": "memo_history", "ops": []}))]),
    };
    let case = || json!({"kind": "memo_history", "ops": hist.iter().map(|o| o.json()).collect::<Vec<_>>()});
    for (i, &op) in hist.iter().enumerate() {
        let r = apply(&mut inst, op, &ctx.inputs);
        if r != ctx.cold[&op] {
            out.push(viol(
                "C13/history-changes-result",
                format!("call #{} ({:?}) returns {:x?} after this history but {:x?} as a first call", i + 1, op, r, ctx.cold[&op]),
                case(),
            ));
            break;
        }
    }
    let img = inst.verif_memo_bits();
    for (i, s) in img.0.iter().enumerate() {
        if let (Some(v), Some(c)) = (s, ctx.canon_f[i]) {
            if *v != c {
                out.push(viol("C13/slot-not-canonical", format!("face-triangle slot {} holds a value that depends on the history", i), case()));
            }
        }
    }
    for (i, s) in img.1.iter().enumerate() {
        if let (Some(v), Some(c)) = (s, ctx.canon_s[i]) {
            if *v != c {
                out.push(viol("C13/slot-not-canonical", format!("spherical-triangle slot {} holds a value that depends on the history", i), case()));
            }
        }
    }
    (bitmap(&img), out)
}

/// step 4: BFS over memo states in a small universe of ops until closure
fn bfs_universe(ctx: &MemoCtx, uni: &[POp]) -> (usize, usize, Vec<Viol>) {
    if crate::ev::flooded() {
        return (0, 0, vec![]);
    }
    let mut seen: HashSet<Vec<u16>> = HashSet::new();
    let mut q: VecDeque<Vec<POp>> = VecDeque::new();
    let mut out = Vec::new();
    seen.insert(vec![]);
    q.push_back(vec![]);
    let mut transitions = 0;
    while let Some(hist) = q.pop_front() {
        for &op in uni {
            let mut h = hist.clone();
            h.push(op);
            transitions += 1;
            let (bm, v) = check_history(ctx, &h);
            out.extend(v);
            if seen.insert(bm) {
                q.push_back(h);
            }
        }
        if seen.len() > 100_000 {
            break;
        }
    }
    (seen.len(), transitions, out)
}

// ======================================================================== API-level histories

#[derive(Clone, Debug)]
pub enum AOp {
    Lookup(f64, f64, i32),
    Centre(u64),
    Boundary(u64, Option<i32>),
    /// the same request as an open ring (closed_ring = false)
    BoundaryOpen(u64, Option<i32>),
    Children(u64),
    Parent(u64),
    ChildrenTo(u64, i32),
    ParentTo(u64, i32),
    Compact(Vec<u64>),
    Uncompact(Vec<u64>, i32),
    Hex(u64),
    Area(i32),
    Fwd(u8, [f64; 3]),
    Inv(u8, [f64; 2]),
    /// direct calls of module-level functions (first users of module-level lazily built tables)
    Authalic(bool, f64),
    IjToS(f64, f64, usize, u8),
    SToAnchor(u64, usize, u8),
    Nearest([f64; 3]),
    Deser(u64),
}
impl AOp {
    pub fn json(&self) -> Value {
        let h = |v: &Vec<u64>| v.iter().map(|&c| subj::hex(c)).collect::<Vec<_>>();
        match self {
            AOp::Lookup(a, b, r) => json!({"f": "lonlat_to_cell", "lon": a, "lat": b, "res": r}),
            AOp::Centre(c) => json!({"f": "cell_to_lonlat", "id": subj::hex(*c)}),
            AOp::Boundary(c, n) => json!({"f": "cell_to_boundary", "id": subj::hex(*c), "segments": n}),
            AOp::BoundaryOpen(c, n) => json!({"f": "cell_to_boundary", "id": subj::hex(*c), "segments": n, "closed_ring": false}),
            AOp::Children(c) => json!({"f": "cell_to_children", "id": subj::hex(*c)}),
            AOp::Parent(c) => json!({"f": "cell_to_parent", "id": subj::hex(*c)}),
            AOp::ChildrenTo(c, r) => json!({"f": "cell_to_children", "id": subj::hex(*c), "res": r}),
            AOp::ParentTo(c, r) => json!({"f": "cell_to_parent", "id": subj::hex(*c), "res": r}),
            AOp::Compact(v) => json!({"f": "compact", "cells": h(v)}),
            AOp::Uncompact(v, r) => json!({"f": "uncompact", "cells": h(v), "res": r}),
            AOp::Hex(c) => json!({"f": "u64_to_hex", "id": subj::hex(*c)}),
            AOp::Area(r) => json!({"f": "cell_area", "res": r}),
            AOp::Fwd(f, v) => json!({"f": "forward", "face": f, "v": v}),
            AOp::Inv(f, q) => json!({"f": "inverse", "face": f, "q": q}),
            AOp::Authalic(fwd, phi) => json!({"f": "authalic", "forward": fwd, "phi": phi}),
            AOp::IjToS(x, y, n, o) => json!({"f": "ij_to_s", "x": x, "y": y, "n": n, "orientation": o}),
            AOp::SToAnchor(s, n, o) => json!({"f": "s_to_anchor", "s": s, "n": n, "orientation": o}),
            AOp::Nearest(v) => json!({"f": "find_nearest_origin", "v": v}),
            AOp::Deser(c) => json!({"f": "deserialize", "id": subj::hex(*c)}),
        }
    }
    pub fn from_json(v: &Value) -> Option<AOp> {
        let id = || v["id"].as_str().and_then(|s| u64::from_str_radix(s, 16).ok());
        let cells = || v["cells"].as_array().map(|a| a.iter().filter_map(|x| x.as_str().and_then(|s| u64::from_str_radix(s, 16).ok())).collect::<Vec<u64>>());
        let fl = |k: &str| v[k].as_array().map(|a| a.iter().filter_map(|x| x.as_f64()).collect::<Vec<f64>>());
        Some(match v["f"].as_str()? {
            "lonlat_to_cell" => AOp::Lookup(v["lon"].as_f64()?, v["lat"].as_f64()?, v["res"].as_i64()? as i32),
            "cell_to_lonlat" => AOp::Centre(id()?),
            "cell_to_boundary" if v["closed_ring"] == false => AOp::BoundaryOpen(id()?, v["segments"].as_i64().map(|x| x as i32)),
            "cell_to_boundary" => AOp::Boundary(id()?, v["segments"].as_i64().map(|x| x as i32)),
            "cell_to_children" => match v["res"].as_i64() {
                Some(r) => AOp::ChildrenTo(id()?, r as i32),
                None => AOp::Children(id()?),
            },
            "cell_to_parent" => match v["res"].as_i64() {
                Some(r) => AOp::ParentTo(id()?, r as i32),
                None => AOp::Parent(id()?),
            },
            "compact" => AOp::Compact(cells()?),
            "uncompact" => AOp::Uncompact(cells()?, v["res"].as_i64()? as i32),
            "u64_to_hex" => AOp::Hex(id()?),
            "cell_area" => AOp::Area(v["res"].as_i64()? as i32),
            "forward" => {
                let a = fl("v")?;
                AOp::Fwd(v["face"].as_u64()? as u8, [a[0], a[1], a[2]])
            }
            "inverse" => {
                let a = fl("q")?;
                AOp::Inv(v["face"].as_u64()? as u8, [a[0], a[1]])
            }
            "authalic" => AOp::Authalic(v["forward"].as_bool()?, v["phi"].as_f64()?),
            "ij_to_s" => AOp::IjToS(v["x"].as_f64()?, v["y"].as_f64()?, v["n"].as_u64()? as usize, v["orientation"].as_u64()? as u8),
            "s_to_anchor" => AOp::SToAnchor(v["s"].as_u64()?, v["n"].as_u64()? as usize, v["orientation"].as_u64()? as u8),
            "find_nearest_origin" => {
                let a = fl("v")?;
                AOp::Nearest([a[0], a[1], a[2]])
            }
            "deserialize" => AOp::Deser(id()?),
            _ => return None,
        })
    }
}

pub fn run_aop(op: &AOp) -> Res {
    let r: Result<Res, String> = subj::guard(|| match op {
        AOp::Lookup(lon, lat, r) => a5::lonlat_to_cell(LonLat::new(*lon, *lat), *r).map(|c| vec![c]),
        AOp::Centre(c) => a5::cell_to_lonlat(*c).map(|l| vec![l.longitude().to_bits(), l.latitude().to_bits()]),
        AOp::Boundary(c, n) => a5::cell_to_boundary(*c, Some(a5::core::cell::CellToBoundaryOptions { closed_ring: true, segments: *n })).map(|v| v.iter().flat_map(|l| [l.longitude().to_bits(), l.latitude().to_bits()]).collect()),
        AOp::BoundaryOpen(c, n) => a5::cell_to_boundary(*c, Some(a5::core::cell::CellToBoundaryOptions { closed_ring: false, segments: *n })).map(|v| v.iter().flat_map(|l| [l.longitude().to_bits(), l.latitude().to_bits()]).collect()),
        AOp::Children(c) => a5::cell_to_children(*c, None),
        AOp::Parent(c) => a5::cell_to_parent(*c, None).map(|p| vec![p]),
        AOp::ChildrenTo(c, r) => a5::cell_to_children(*c, Some(*r)),
        AOp::ParentTo(c, r) => a5::cell_to_parent(*c, Some(*r)).map(|p| vec![p]),
        AOp::Compact(v) => a5::compact(v),
        AOp::Uncompact(v, r) => a5::uncompact(v, *r),
        AOp::Hex(c) => Ok(a5::u64_to_hex(*c).bytes().map(|b| b as u64).collect()),
        AOp::Area(r) => Ok(vec![a5::cell_area(*r).to_bits(), a5::get_num_cells(*r)]),
        AOp::Fwd(f, v) => DodecahedronProjection::get_thread_local().forward(subj::sph(*v), *f).map(|p| vec![p.x().to_bits(), p.y().to_bits()]),
        AOp::Inv(f, q) => DodecahedronProjection::get_thread_local().inverse(Face::new(q[0], q[1]), *f).map(|s| vec![s.theta().get().to_bits(), s.phi().get().to_bits()]),
        AOp::Authalic(fwd, phi) => {
            let p = a5::projections::authalic::AuthalicProjection;
            let r = a5::coordinate_systems::Radians::new_unchecked(*phi);
            Ok(vec![if *fwd { p.forward(r) } else { p.inverse(r) }.get().to_bits()])
        }
        AOp::IjToS(x, y, n, o) => Ok(vec![a5::core::hilbert::ij_to_s(a5::coordinate_systems::IJ::new(*x, *y), *n, super::hilbert::ORIENTATIONS[*o as usize % 6].0)]),
        AOp::SToAnchor(s, n, o) => {
            let a = a5::core::hilbert::s_to_anchor(*s, *n, super::hilbert::ORIENTATIONS[*o as usize % 6].0);
            Ok(vec![a.k as u64, a.offset.x().to_bits(), a.offset.y().to_bits(), a.flips[0] as u64, a.flips[1] as u64])
        }
        AOp::Nearest(v) => Ok(vec![a5::core::origin::find_nearest_origin(subj::sph(*v)).id as u64]),
        AOp::Deser(c) => a5::core::serialization::deserialize(*c).map(|c| vec![c.origin_id as u64, c.segment as u64, c.s, c.resolution as u64]),
    });
    match r {
        Ok(v) => v,
        Err(e) => err_bits(&e),
    }
}

/// a representative catalogue of public calls that touch the same lazily filled state
pub fn api_ops() -> Vec<AOp> {
    let f = rg::frame();
    let seam = rg::vec_to_ll(f.midpoints[3]);
    let vertex = rg::vec_to_ll(f.vertices[7]);
    let mut ops = vec![
        AOp::Lookup(12.3, 90.0, 0),
        AOp::Lookup(-170.0, 90.0, 7),
        AOp::Lookup(0.0, -90.0, 29),
        AOp::Lookup(seam.0, seam.1, 1),
        AOp::Lookup(seam.0, seam.1, 2),
        AOp::Lookup(seam.0, seam.1, 29),
        AOp::Lookup(vertex.0, vertex.1, 7),
        AOp::Lookup(180.0, 10.0, 2),
        AOp::Lookup(-180.0, 10.0, 7),
        AOp::Lookup(12.3, 45.6, 1),
        AOp::Lookup(12.3, 45.6, 29),
        AOp::Lookup(372.3, 45.6, 7),
    ];
    let id_of = |lon: f64, lat: f64, r: i32| subj::lookup(lon, lat, r).unwrap_or(0);
    let polar = id_of(10.0, 89.9999, 12);
    let seamcell = id_of(seam.0, seam.1, 3);
    let anti = id_of(180.0, 10.0, 4);
    let fine = id_of(12.3, 45.6, 29);
    for c in [polar, seamcell, anti, fine] {
        ops.push(AOp::Centre(c));
        ops.push(AOp::Boundary(c, Some(2)));
    }
    ops.push(AOp::Boundary(seamcell, None));
    // the same request with one option toggled, and two functions handed the same argument bits
    ops.push(AOp::BoundaryOpen(seamcell, None));
    ops.push(AOp::BoundaryOpen(seamcell, Some(2)));
    ops.push(AOp::BoundaryOpen(fine, Some(2)));
    ops.push(AOp::Authalic(true, 0.9));
    ops.push(AOp::Authalic(false, 0.9));
    // a valid id, then the same id with a stray low bit (must stay rejected whatever was validated before)
    ops.push(AOp::Parent(seamcell));
    ops.push(AOp::ParentTo(seamcell | 1, 3));
    ops.push(AOp::ChildrenTo(seamcell | 1, 3));
    // ids that share their top six bits but read them differently: base cell k (face k) and the first
    // quintant-level id with the same leading bits (5 * face + quintant code = k)
    for k in [0u64, 7] {
        let base = (k << 58) | (1u64 << 57);
        let quint = (k << 58) | (1u64 << 56);
        ops.push(AOp::ParentTo(base, 0));
        ops.push(AOp::Parent(quint));
        ops.push(AOp::Deser(base));
        ops.push(AOp::Deser(quint));
    }
    ops.push(AOp::Children(seamcell));
    ops.push(AOp::Children(0));
    ops.push(AOp::Parent(fine));
    let q = crate::refcodec::children(crate::refcodec::all_cells(0)[1]);
    ops.push(AOp::Compact(q.clone()));
    ops.push(AOp::Compact(vec![seamcell, anti, seamcell]));
    ops.push(AOp::Uncompact(vec![crate::refcodec::all_cells(0)[4]], 3));
    ops.push(AOp::Uncompact(vec![seamcell], 5));
    ops.push(AOp::Hex(fine));
    ops.push(AOp::Area(7));
    // collision lattice: cells that differ in exactly one component of (face, quintant, position,
    // resolution) — a cache keyed on any proper subset of those components makes two of them collide
    for face in [3u64, 7] {
        for quintant in [0u64, 2] {
            for (res, pos) in [(2, 0u64), (3, 0), (3, 5), (5, 0), (5, 5), (9, 0)] {
                if let Some(c) = crate::refcodec::encode(crate::refcodec::Tuple { face, quintant, s: pos, res }) {
                    ops.push(AOp::Centre(c));
                    ops.push(AOp::Boundary(c, Some(1)));
                }
            }
        }
    }
    // calls that are rejected after some valid cells were already seen, followed by calls that reach the
    // same resolution (state that survives an Err return)
    {
        let p8 = crate::refcodec::descendants(crate::refcodec::children(crate::refcodec::all_cells(0)[6])[2], 8)[321];
        let s = crate::refcodec::children(p8);
        ops.push(AOp::Compact(vec![s[0], s[1], s[2], 1]));
        ops.push(AOp::Compact(vec![s[3]]));
        ops.push(AOp::Compact(vec![s[0], s[1], s[2]]));
        ops.push(AOp::Compact(vec![p8]));
        ops.push(AOp::Uncompact(vec![s[0], 3], 10));
        ops.push(AOp::Uncompact(vec![s[1]], 10));
        ops.push(AOp::Parent(1));
    }
    // rings of different length for cells spread around the globe
    for k in 0..8 {
        let c = id_of(-170.0 + 45.0 * k as f64, 7.0, 3);
        ops.push(AOp::Boundary(c, Some(64)));
        ops.push(AOp::Boundary(c, Some(1)));
    }
    // ids whose 32-bit halves collide under xor-folding / truncation with another id of the same resolution
    for r in [24, 29] {
        if let Some(a) = crate::refcodec::encode(crate::refcodec::Tuple { face: 5, quintant: 1, s: 0x1234_5678_9abc & ((1u64 << (2 * (r - 1))) - 1), res: r }) {
            ops.push(AOp::Parent(a));
            ops.push(AOp::Centre(a));
            for d in [1u64 << 8, 1u64 << 12, 0x10100u64] {
                let b = a ^ (d << 32) ^ d;
                if crate::refcodec::resolution(b) == Some(r) && crate::refcodec::is_canonical(b) {
                    ops.push(AOp::Parent(b));
                    ops.push(AOp::Centre(b));
                }
                let b2 = a ^ (d << 32);
                if crate::refcodec::resolution(b2) == Some(r) && crate::refcodec::is_canonical(b2) {
                    ops.push(AOp::Parent(b2));
                }
            }
        }
    }
    // a point that is exactly a cell vertex, looked up at several resolutions
    if let Ok(ring) = subj::boundary(seamcell, false, Some(1)) {
        // (a malformed ring is C11's subject; here it only must not stop the check)
        let (vlon, vlat) = ring.get(1).copied().unwrap_or((12.5, 41.9));
        for r in [3, 6, 7, 14, 19, 21] {
            ops.push(AOp::Lookup(vlon, vlat, r));
        }
        // and points a fraction of a fine cell away from that vertex (ordinary lookups whose probes see
        // the cells that touch the vertex)
        let vv = rg::ll_to_vec(vlon, vlat);
        for (a, b) in [(3e-8, 1e-8), (-2e-8, 2.5e-8)] {
            let (nlon, nlat) = rg::vec_to_ll(rg::offset(vv, a, b));
            for r in [7, 19, 21] {
                ops.push(AOp::Lookup(nlon, nlat, r));
            }
        }
    }
    // cells whose centre or corners lie exactly on a sector ray of their face (quintants, base cells)
    for face in [4usize, 9] {
        let b = crate::refcodec::all_cells(0)[face];
        ops.push(AOp::Centre(b));
        for q in crate::refcodec::children(b) {
            ops.push(AOp::Centre(q));
            ops.push(AOp::Boundary(q, Some(1)));
        }
    }
    // the same point at neighbouring resolutions, and two nearby points at one resolution
    for r in [3, 4, 5] {
        ops.push(AOp::Lookup(12.3, 45.6, r));
        ops.push(AOp::Lookup(12.3001, 45.6, r));
    }
    // direct projection calls on the thread's instance: same face, same sector, beyond the edge
    let qb = plane_point(POp { face: 3, sector: 4, beyond: true, forward: false, on_seam: false });
    let qi = plane_point(POp { face: 3, sector: 4, beyond: false, forward: false, on_seam: false });
    ops.push(AOp::Inv(3, qb));
    ops.push(AOp::Inv(3, qi));
    ops.push(AOp::Inv(7, qb));
    let vb = subj::guard(|| {
        let mut inst = DodecahedronProjection::new()?;
        inst.inverse(Face::new(qb[0], qb[1]), 3).map(subj::sph_to_vec)
    })
    .unwrap_or([0.0, 0.0, 1.0]);
    ops.push(AOp::Fwd(3, vb));
    ops.push(AOp::Fwd(7, vb));
    ops
}

/// two-step histories: an ordinary lookup in the neighbourhood of a cell vertex (12 directions x 2
/// radii x 3 resolutions), then the lookup of the vertex itself where it is answered by the
/// nearest-cell fallback (such vertices are found with hook H1)
pub fn vertex_histories(max_vertices: usize) -> Vec<Vec<AOp>> {
    let mut out = Vec::new();
    let mut found = 0;
    'scan: for c in crate::refcodec::all_cells(4).into_iter().step_by(7) {
        if let Ok(ring) = subj::boundary(c, false, Some(1)) {
            for &(lon, lat) in ring.iter() {
                for r2 in [6, 7, 14, 19] {
                    let (res, branch) = subj::lookup_branch(lon, lat, r2);
                    if res.is_ok() && branch == 1000 {
                        let answered = res.clone().unwrap_or(0);
                        // locate by the fallback, then draw / label the answered cell on the same thread
                        out.push(vec![AOp::Lookup(lon, lat, r2), AOp::Boundary(answered, Some(1)), AOp::Centre(answered), AOp::Boundary(answered, None)]);
                        let vv = rg::ll_to_vec(lon, lat);
                        for r1 in [r2 - 1, r2 + 1, r2 + 2] {
                            let sz = geo::cell_size(r1);
                            for k in 0..12 {
                                let a = k as f64 * rg::PI / 6.0 + 0.1;
                                for rad in [0.45, 0.9] {
                                    let (nlon, nlat) = rg::vec_to_ll(rg::offset(vv, rad * sz * a.cos(), rad * sz * a.sin()));
                                    out.push(vec![AOp::Lookup(nlon, nlat, r1), AOp::Lookup(lon, lat, r2)]);
                                }
                            }
                        }
                        found += 1;
                        if found >= max_vertices {
                            break 'scan;
                        }
                        break;
                    }
                }
            }
        }
    }
    out
}

/// sequences of lookups that advance in 1e-7 rad steps across a face seam, a sector ray, the
/// antimeridian, the internal longitude seam and a pole (both directions, several resolutions)
pub fn track_histories() -> Vec<Vec<AOp>> {
    let f = rg::frame();
    let mut lines: Vec<(V3, V3)> = Vec::new(); // (point on the line, unit normal of the line in the tangent plane)
    for (i, j) in [(0usize, 1usize), (3, 4), (6, 7), (9, 10), (1, 10)] {
        if rg::ang(f.centres[i], f.centres[j]) < 1.2 {
            // a point on the seam, 18 degrees along from the midpoint
            let m = rg::unit(rg::add(f.centres[i], f.centres[j]));
            let nrm = rg::unit(rg::sub(f.centres[j], f.centres[i]));
            let along = rg::unit(rg::cross(m, nrm));
            let p = rg::unit(rg::add(rg::scale(m, (0.1f64).cos()), rg::scale(along, (0.1f64).sin())));
            let n2 = rg::unit(rg::sub(nrm, rg::scale(p, rg::dot(nrm, p))));
            lines.push((p, n2));
        }
    }
    // sector ray: face centre -> vertex, at 60 % of the way
    for (c, v) in [(2usize, 3usize), (7, 11)] {
        let cc = f.centres[c];
        let vv = f.vertices.iter().copied().filter(|x| rg::ang(*x, cc) < 0.7).nth(v % 5).unwrap();
        let p = rg::unit(rg::add(rg::scale(cc, 0.4), rg::scale(vv, 0.6)));
        let n2 = rg::unit(rg::cross(cc, vv));
        lines.push((p, n2));
    }
    // antimeridian, internal longitude seam, north pole
    for (lon, lat) in [(180.0, 12.0), (87.0, -33.0)] {
        let p = rg::ll_to_vec(lon, lat);
        let east = rg::unit(rg::cross([0.0, 0.0, 1.0], p));
        lines.push((p, east));
    }
    lines.push(([0.0, 0.0, 1.0], [1.0, 0.0, 0.0]));
    let mut out = Vec::new();
    let step = 1e-7;
    for (p, nrm) in lines {
        for dir in [1.0, -1.0] {
            for res in [0, 1, 5, 9] {
                let mut ops = Vec::new();
                for k in 0..9 {
                    let off = dir * (k as f64 - 4.5) * step;
                    let q = rg::unit(rg::add(p, rg::scale(nrm, off)));
                    let (lon, lat) = rg::vec_to_ll(q);
                    ops.push(AOp::Lookup(lon, lat, res));
                }
                out.push(ops);
            }
        }
    }
    out
}



// ------------------------------------------------------------------------ long histories

/// Histories far longer than any pair or triple, on ONE fresh thread, for one family of calls:
/// (A) a call x repeated after exactly g - 1 identical filler calls for g around 2^8, 2^10, 2^12 and 2^16
///     (a per-thread or per-process call counter that wraps, stale slots that are never refreshed);
/// (B) a run of `keys.len()` DISTINCT calls (70 000: more than any table of 2^8, 2^10, 2^11, 2^12 or 2^16
///     entries holds) in which, after the i-th distinct call for i around those sizes, earlier calls are
///     repeated (the first, the latest, the one 16 / 1024 / 65 536 calls back, ...).
/// Oracle: a repeated call returns bit for bit what its first occurrence returned, and x / the filler return
/// what they return as the first call of a fresh thread.
pub fn long_history(name: &str, x: AOp, filler: AOp, keys: Vec<AOp>) -> (u64, Vec<Viol>) {
    if crate::ev::flooded() {
        return (0, vec![]);
    }
    let (x2, f2) = (x.clone(), filler.clone());
    let cold_x = in_fresh_thread(move || run_aop(&x2));
    let cold_f = in_fresh_thread(move || run_aop(&f2));
    let name = name.to_string();
    in_fresh_thread(move || {
        let mut calls = 0u64;
        let mut out: Vec<Viol> = Vec::new();
        // (A)
        let mut since = 0u64; // calls since the last x
        let first = run_aop(&x);
        calls += 1;
        if first != cold_x {
            out.push(viol("C13/history-changes-result", format!("[{}] first call differs from the cold value", name), json!({"kind": "long-history", "family": name, "mode": "A", "gap": 0})));
        }
        for g in [255u64, 256, 257, 1023, 1024, 1025, 4096, 65535, 65536, 65537] {
            while since + 1 < g {
                let r = run_aop(&filler);
                calls += 1;
                since += 1;
                if since % 4099 == 1 && r != cold_f {
                    out.push(viol("C13/history-changes-result", format!("[{}] the filler call {} returns {:x?} after {} calls, {:x?} as a first call", name, filler.json(), trunc(&r), calls, trunc(&cold_f)), json!({"kind": "long-history", "family": name, "mode": "A", "gap": g})));
                    return (calls, out);
                }
            }
            let r = run_aop(&x);
            calls += 1;
            since = 0;
            if r != cold_x {
                out.push(viol(
                    "C13/history-changes-result",
                    format!("[{}] {} returns {:x?} when it is repeated after exactly {} other calls ({}) on the same thread, but {:x?} as the first call of a fresh thread", name, x.json(), trunc(&r), g - 1, filler.json(), trunc(&cold_x)),
                    json!({"kind": "long-history", "family": name, "mode": "A", "gap": g}),
                ));
                return (calls, out);
            }
        }
        // (B)
        let marks: Vec<usize> = vec![15, 16, 17, 255, 256, 257, 1023, 1024, 1025, 2047, 2048, 2049, 4095, 4096, 4097, 16384, 32768, 65534, 65535, 65536, 65537, 65600];
        let mut firsts: Vec<Res> = Vec::with_capacity(keys.len());
        for i in 0..keys.len() {
            firsts.push(run_aop(&keys[i]));
            calls += 1;
            let revisit_all = marks.contains(&i) || i + 1 == keys.len();
            if revisit_all || i % 9973 == 0 {
                let mut back: Vec<usize> = vec![0, i, i / 2];
                for d in [1usize, 15, 16, 17, 255, 256, 1023, 1024, 1025, 2048, 4096, 65535, 65536] {
                    if i >= d {
                        back.push(i - d);
                    }
                }
                if i + 1 == keys.len() {
                    back.extend((0..keys.len()).step_by(211));
                    back.extend(65530..65545.min(keys.len()));
                }
                for j in back {
                    let r = run_aop(&keys[j]);
                    calls += 1;
                    if r != firsts[j] {
                        out.push(viol(
                            "C13/history-changes-result",
                            format!("[{}] distinct call #{} ({}) returned {:x?} the first time and {:x?} when repeated after {} distinct calls had been made on the thread", name, j, keys[j].json(), trunc(&firsts[j]), trunc(&r), i + 1),
                            json!({"kind": "long-history", "family": name, "mode": "B", "after": i, "repeat": j}),
                        ));
                        return (calls, out);
                    }
                }
            }
        }
        (calls, out)
    })
}

/// the families of long histories: (name, x, filler, distinct keys)
pub fn long_families(quick: bool) -> Vec<(String, AOp, AOp, Vec<AOp>)> {
    let k: usize = 70_000;
    let base = crate::refcodec::all_cells(0);
    let q = crate::refcodec::children(base[4])[1];
    let r12 = {
        let mut c = q;
        for d in [1usize, 3, 0, 2, 2, 1, 0, 3, 1, 2, 0] {
            c = crate::refcodec::children(c)[d];
        }
        c
    };
    // 65 536 descendants at r=20 of one r=12 cell, then the descendants of its sibling
    let mut fine: Vec<u64> = crate::refcodec::descendants(r12, 20);
    fine.extend(crate::refcodec::descendants(crate::refcodec::children(crate::refcodec::parent(r12).unwrap())[3], 20).into_iter().take(k - 65536));
    fine.truncate(k);
    let far = subj::lookup(-120.0, -40.0, 12).unwrap_or(0);
    let mut out: Vec<(String, AOp, AOp, Vec<AOp>)> = Vec::new();
    // lookups: distinct points on a fine grid of one region (each in its own r=12 cell or nearly so)
    {
        let keys: Vec<AOp> = (0..k).map(|i| AOp::Lookup(5.0 + 0.011 * (i % 300) as f64, 40.0 + 0.009 * (i / 300) as f64, 12)).collect();
        out.push(("lookup r=12".into(), AOp::Lookup(12.3, 45.6, 12), AOp::Lookup(-120.0, -40.0, 12), keys));
    }
    {
        let keys: Vec<AOp> = fine.iter().map(|&c| AOp::Centre(c)).collect();
        out.push(("centre r=20".into(), AOp::Centre(fine[7]), AOp::Centre(far), keys));
    }
    if !quick {
        let keys: Vec<AOp> = fine.iter().map(|&c| AOp::Boundary(c, Some(1))).collect();
        out.push(("boundary r=20".into(), AOp::Boundary(fine[9], Some(1)), AOp::Boundary(far, Some(1)), keys));
        let keys: Vec<AOp> = (0..k).map(|i| AOp::Lookup(-60.0 + 0.00011 * (i % 300) as f64, -20.0 + 0.00009 * (i / 300) as f64, 20)).collect();
        out.push(("lookup r=20".into(), AOp::Lookup(12.3, 45.6, 20), AOp::Lookup(-120.0, -40.0, 20), keys));
    }
    {
        // compact of distinct sibling groups (with one extra cell), uncompact of distinct cells
        let keys: Vec<AOp> = fine
            .chunks(4)
            .take(k / 4)
            .map(|g| {
                let mut v = g.to_vec();
                v.push(far);
                AOp::Compact(v)
            })
            .collect();
        let x = AOp::Compact({
            let mut v = crate::refcodec::children(fine[100] >> 0).into_iter().collect::<Vec<u64>>();
            v.push(fine[3]);
            v
        });
        out.push(("compact".into(), x, AOp::Compact(vec![far]), keys));
        let keys: Vec<AOp> = fine.iter().step_by(if quick { 4 } else { 1 }).map(|&c| AOp::Uncompact(vec![c], 21)).collect();
        out.push(("uncompact".into(), AOp::Uncompact(vec![fine[5], fine[6]], 22), AOp::Uncompact(vec![far], 13), keys));
    }
    {
        let keys: Vec<AOp> = fine.iter().map(|&c| AOp::ParentTo(c, 7)).collect();
        out.push(("parent".into(), AOp::ParentTo(fine[11], 3), AOp::Parent(far), keys));
        let keys: Vec<AOp> = fine.iter().map(|&c| AOp::ChildrenTo(c, 22)).collect();
        out.push(("children".into(), AOp::ChildrenTo(fine[13], 23), AOp::Children(far), keys));
        let keys: Vec<AOp> = fine.iter().map(|&c| AOp::Deser(c)).collect();
        out.push(("deserialize".into(), AOp::Deser(fine[17]), AOp::Deser(far), keys));
    }
    out
}

// ------------------------------------------------------------------------ pair circuits

/// Every ordered pair (a, b) of `ops` as two consecutive calls, all on ONE fresh thread (2 n^2 calls):
/// whatever an earlier call leaves behind on the thread (a remembered neighbourhood, a table grown in
/// some order, a scratch list) meets every later call. Each result must be bitwise equal to the cold
/// result (the same call as the first call of a fresh thread). Returns (calls, violation).
pub fn circuit(ops: &[AOp], upto: Option<usize>) -> (u64, Option<Viol>) {
    if crate::ev::flooded() {
        return (0, None);
    }
    let cold: Vec<Res> = ops
        .iter()
        .map(|op| {
            let op = op.clone();
            in_fresh_thread(move || run_aop(&op))
        })
        .collect();
    let ops2: Vec<AOp> = ops.to_vec();
    let limit = upto.unwrap_or(usize::MAX);
    let (calls, bad) = in_fresh_thread(move || {
        let n = ops2.len();
        let mut calls = 0usize;
        for a in 0..n {
            for b in 0..n {
                for (slot, i) in [(0usize, a), (1, b)] {
                    let r = run_aop(&ops2[i]);
                    calls += 1;
                    if r != cold[i] {
                        return (calls, Some((calls, a, b, slot, r, cold[i].clone())));
                    }
                    if calls >= limit {
                        return (calls, None);
                    }
                }
            }
        }
        (calls, None)
    });
    let v = bad.map(|(k, a, b, slot, r, c)| {
        viol(
            "C13/history-changes-result",
            format!(
                "call #{} of a pair circuit ({}, {} call of the pair ({}, {})) returns {:x?} on a thread that made the preceding calls but {:x?} as the first call of a fresh thread",
                k,
                ops[if slot == 0 { a } else { b }].json(),
                if slot == 0 { "first" } else { "second" },
                ops[a].json(),
                ops[b].json(),
                trunc(&r),
                trunc(&c)
            ),
            json!({"kind": "circuit", "ops": ops.iter().map(|o| o.json()).collect::<Vec<_>>(), "upto": k}),
        )
    });
    (calls as u64, v)
}

/// lookup neighbourhoods: a g x g grid over +-1.5 cell sizes around a place, at one resolution; only
/// the lookups that are NOT answered by their first estimate (hook H1) are kept, i.e. those that run
/// the probe spiral, the stateful-looking part of the lookup
pub fn lookup_neighbourhoods(quick: bool) -> Vec<Vec<AOp>> {
    let f = rg::frame();
    // places: named ones, plus a lattice across whole faces (towards each of the 5 vertices and 5 edge
    // midpoints of the face, at several fractions of the way, shifted off the symmetry lines): how
    // good the first estimate of a lookup is depends on where in the face the point lies
    let mut places: Vec<(V3, Vec<i32>)> = Vec::new();
    let all_res: Vec<i32> = if quick { vec![6, 12, 27] } else { vec![3, 6, 9, 12, 16, 20, 24, 27, 29] };
    for (lon, lat) in [(12.3, 45.6), (-71.9, -12.25)] {
        places.push((rg::ll_to_vec(lon, lat), all_res.clone()));
    }
    if !quick {
        for (lon, lat) in [(151.2, -33.9), (179.99, 61.0), (40.0, 88.5)] {
            places.push((rg::ll_to_vec(lon, lat), all_res.clone()));
        }
    }
    let faces: &[usize] = if quick { &[3] } else { &[0, 3, 8, 11] };
    let fracs: &[f64] = if quick { &[0.1, 0.4, 0.95] } else { &[0.1, 0.3, 0.5, 0.7, 0.9, 0.97] };
    let mut k = 0usize;
    for &face in faces {
        let c = f.centres[face];
        let targets: Vec<V3> = f.vertices.iter().chain(f.midpoints.iter()).copied().filter(|v| rg::ang(*v, c) < 0.7).collect();
        for t in &targets {
            for &fr in fracs {
                let p = rg::offset(rg::unit(rg::add(rg::scale(c, 1.0 - fr), rg::scale(*t, fr))), 0.013, 0.007);
                let rs: Vec<i32> = if quick { vec![all_res[k % all_res.len()]] } else { vec![all_res[k % all_res.len()], all_res[(k + 4) % all_res.len()]] };
                k += 1;
                places.push((p, rs));
            }
        }
    }
    let g: usize = if quick { 26 } else { 40 };
    let mut out = Vec::new();
    for (p, ress) in &places {
        for &r in ress.iter() {
            let sz = geo::cell_size(r);
            let mut ops = Vec::new();
            for i in 0..g {
                for j in 0..g {
                    let x = ((i as f64 + 0.37) / g as f64 - 0.5) * 3.0 * sz;
                    let y = ((j as f64 + 0.61) / g as f64 - 0.5) * 3.0 * sz;
                    let (lon, lat) = rg::vec_to_ll(rg::offset(*p, x, y));
                    let (res, branch) = subj::lookup_branch(lon, lat, r);
                    if res.is_ok() && branch != 1 {
                        ops.push(AOp::Lookup(lon, lat, r));
                    }
                }
            }
            ops.truncate(if quick { 140 } else { 330 });
            if ops.len() >= 2 {
                out.push(ops);
            }
        }
    }
    out
}

/// circuits over families of calls that share per-thread or per-resolution state: one point and one
/// chain of cells at every resolution; hierarchy calls incl. refused ones; Hilbert calls of many depths
pub fn family_circuits(quick: bool) -> Vec<Vec<AOp>> {
    let mut out = Vec::new();
    // (1) one place, every resolution: lookup, centre and ring of the cell found
    for (lon, lat) in [(12.3, 45.6), (-100.0, -62.0)] {
        let mut ops = Vec::new();
        for r in 0..=29 {
            ops.push(AOp::Lookup(lon, lat, r));
            if let Ok(c) = subj::lookup(lon, lat, r) {
                ops.push(AOp::Centre(c));
                if r % 3 == 0 {
                    ops.push(AOp::Boundary(c, Some(1)));
                }
            }
        }
        out.push(ops);
        if quick {
            break;
        }
    }
    // (2) hierarchy calls, valid and refused
    {
        let base = crate::refcodec::all_cells(0);
        let q = crate::refcodec::children(base[7])[3];
        let chain: Vec<u64> = {
            let mut v = vec![q];
            let mut c = q;
            for d in [1usize, 0, 3, 2, 1, 1, 2, 0, 3, 3, 1, 2, 0, 1, 2, 3, 0, 1, 2, 3, 0, 1, 2, 3, 0, 1, 2, 3] {
                c = crate::refcodec::children(c)[d];
                v.push(c);
            }
            v
        };
        let mut ops = vec![AOp::Children(0), AOp::Children(base[2]), AOp::Children(q), AOp::Parent(q), AOp::Parent(1), AOp::Children(1)];
        for &c in chain.iter().step_by(3) {
            ops.push(AOp::Children(c));
            ops.push(AOp::Parent(c));
            ops.push(AOp::Deser(c));
        }
        ops.push(AOp::Uncompact(vec![chain[4], chain[7]], 30)); // refused: no such resolution
        ops.push(AOp::Uncompact(vec![chain[4], chain[7]], 9));
        ops.push(AOp::Uncompact(vec![chain[7], chain[4]], 6)); // refused: finer than the target
        ops.push(AOp::Uncompact(vec![chain[20]], 22));
        ops.push(AOp::Compact(crate::refcodec::children(chain[6])));
        ops.push(AOp::Compact(vec![chain[6], 2, chain[3]])); // refused
        ops.push(AOp::Compact(vec![chain[28], chain[27], chain[3]]));
        ops.push(AOp::Compact(crate::refcodec::all_cells(1)));
        out.push(ops);
    }
    // (2b) collision families of hierarchy calls with explicit targets (cells that differ in one component)
    for r in if quick { vec![28] } else { vec![14, 28, 29] } {
        let ops: Vec<AOp> = crate::checks::longlists::collision_calls(r)
            .into_iter()
            .filter_map(|c| match c {
                crate::checks::longlists::Call::Children(x, Some(t)) => Some(AOp::ChildrenTo(x, t)),
                crate::checks::longlists::Call::Children(x, None) => Some(AOp::Children(x)),
                crate::checks::longlists::Call::Parent(x, Some(t)) => Some(AOp::ParentTo(x, t)),
                crate::checks::longlists::Call::Parent(x, None) => Some(AOp::Parent(x)),
                _ => None,
            })
            .collect();
        out.push(ops);
    }
    // refused deep expansions followed by ordinary ones
    {
        let base = crate::refcodec::all_cells(0);
        let q = crate::refcodec::children(base[5])[2];
        let r5 = crate::refcodec::descendants(q, 5)[77];
        out.push(vec![AOp::ChildrenTo(r5, 29), AOp::ChildrenTo(q, 29), AOp::ChildrenTo(0, 29), AOp::ChildrenTo(r5, 6), AOp::ChildrenTo(q, 2), AOp::Children(base[5]), AOp::Children(0), AOp::ChildrenTo(r5, 4), AOp::ParentTo(r5, 9), AOp::ParentTo(r5, 1), AOp::Uncompact(vec![r5], 7)]);
    }
    // (3) Hilbert walks of many depths and all orientations
    {
        let mut ops = Vec::new();
        for n in [1usize, 2, 3, 5, 8, 13, 20, 28] {
            for o in 0..6u8 {
                let m = 1u64 << (2 * n.min(31));
                ops.push(AOp::SToAnchor((m / 3) | 1, n, o));
                if n <= 13 || !quick {
                    let side = (1u64 << n) as f64;
                    ops.push(AOp::IjToS(side * 0.31, side * 0.22, n, o));
                }
            }
        }
        out.push(ops);
    }
    out
}

/// violations recorded by helper threads that died (a panic of the subject outside every guard, e.g. in
/// a thread-local constructor or destructor): drained by run()
static THREAD_DEATHS: Mutex<Vec<String>> = Mutex::new(Vec::new());

fn in_fresh_thread<T: Send + Default + 'static>(f: impl FnOnce() -> T + Send + 'static) -> T {
    match std::thread::Builder::new().spawn(f) {
        Ok(h) => match h.join() {
            Ok(v) => v,
            Err(e) => {
                let msg = e.downcast_ref::<&str>().map(|s| s.to_string()).or_else(|| e.downcast_ref::<String>().cloned()).unwrap_or_else(|| "?".into());
                THREAD_DEATHS.lock().unwrap().push(msg);
                T::default()
            }
        },
        Err(e) => {
            THREAD_DEATHS.lock().unwrap().push(format!("could not start a thread: {}", e));
            T::default()
        }
    }
}

// ======================================================================== (b) schedules

#[derive(Clone, Debug)]
pub struct Step {
    pub worker: usize,
    pub what: String,
    pub enabled: Vec<usize>,
    pub chosen: usize,
    pub running: Option<usize>,
}

struct Ctl {
    active: bool,
    turn: Option<usize>, // Some(w): worker w may run; None: the controller decides
    parked_at: Vec<Option<String>>,
    finished: Vec<bool>,
    occupant: HashMap<usize, usize>, // instance -> worker inside forward/inverse
    instances: HashMap<usize, BTreeSet<usize>>, // instance -> workers that ever entered it
    violations: Vec<String>,
    init_runs: [u32; 4],
    init_by: BTreeMap<usize, usize>, // lazy object -> worker that ran its initialiser
    lazy_seen: HashMap<(usize, usize), u32>,
    last_point: Option<(usize, String)>,
}
static CTL: Mutex<Option<Ctl>> = Mutex::new(None);
static CV: Condvar = Condvar::new();
thread_local! { static WORKER: std::cell::Cell<Option<usize>> = const { std::cell::Cell::new(None) }; }

fn hook(p: Point) {
    let me = match WORKER.with(|w| w.get()) {
        Some(m) => m,
        None => return,
    };
    let mut g = CTL.lock().unwrap();
    let c = match g.as_mut() {
        Some(c) if c.active => c,
        _ => return,
    };
    match p.kind {
        Kind::InitRun => {
            // monitor only: never a switch point (the thread may hold a Once)
            if p.object < 4 {
                c.init_runs[p.object] += 1;
                let key = p.object * 10 + (p.slot % 10);
                c.init_by.entry(key).or_insert(me);
            }
            return;
        }
        Kind::Enter => {
            if let Some(&o) = c.occupant.get(&p.object) {
                if o != me {
                    c.violations.push(format!("worker {} entered projection instance {:#x} while worker {} was inside it", me, p.object, o));
                }
            }
            c.occupant.insert(p.object, me);
            c.instances.entry(p.object).or_default().insert(me);
        }
        Kind::Exit => {
            if c.occupant.get(&p.object) == Some(&me) {
                c.occupant.remove(&p.object);
            }
        }
        Kind::LazyAccess => {
            // only the first two accesses per (worker, table) are switch points
            let n = c.lazy_seen.entry((me, p.object)).or_insert(0);
            *n += 1;
            if *n > 2 {
                return;
            }
        }
        _ => {}
    }
    let what = format!("{:?}:{}", p.kind, if p.kind == Kind::LazyAccess { p.object } else { p.slot });
    park(g, me, what);
}

/// park the calling worker at a switch point and wait for the baton
fn park(mut g: std::sync::MutexGuard<'static, Option<Ctl>>, me: usize, what: String) {
    {
        let c = g.as_mut().unwrap();
        c.parked_at[me] = Some(what.clone());
        c.last_point = Some((me, what));
        c.turn = None;
    }
    CV.notify_all();
    loop {
        g = CV.wait(g).unwrap();
        match g.as_ref() {
            Some(c) if c.turn == Some(me) => break,
            Some(c) if !c.active => break,
            None => break,
            _ => {}
        }
    }
    if let Some(c) = g.as_mut() {
        c.parked_at[me] = None;
    }
}

pub struct Execution {
    pub steps: Vec<Step>,
    pub results: Vec<Vec<Res>>,
    pub violations: Vec<String>,
    pub init_runs: [u32; 4],
    pub init_by: BTreeMap<usize, usize>,
    pub deadlock: bool,
}

/// run one execution: workers[i] = list of ops; `prefix` = forced choices (index into the enabled
/// set in canonical order: running worker first, then ascending ids); default choice 0 afterwards.
pub fn run_execution(workers: &[Vec<AOp>], prefix: &[usize]) -> Execution {
    a5::verif::install(hook);
    let n = workers.len();
    {
        let mut g = CTL.lock().unwrap();
        *g = Some(Ctl {
            active: true,
            turn: None,
            parked_at: vec![None; n],
            finished: vec![false; n],
            occupant: HashMap::new(),
            instances: HashMap::new(),
            violations: vec![],
            init_runs: [0; 4],
            init_by: BTreeMap::new(),
            lazy_seen: HashMap::new(),
            last_point: None,
        });
    }
    let results: Vec<std::sync::Arc<Mutex<Vec<Res>>>> = (0..n).map(|_| std::sync::Arc::new(Mutex::new(Vec::new()))).collect();
    let mut handles = Vec::new();
    for (w, ops) in workers.iter().enumerate() {
        let ops = ops.clone();
        let res = results[w].clone();
        handles.push(std::thread::spawn(move || {
            WORKER.with(|x| x.set(Some(w)));
            {
                let g = CTL.lock().unwrap();
                park(g, w, "start".into());
            }
            for op in &ops {
                let r = run_aop(op);
                res.lock().unwrap().push(r);
            }
            let mut g = CTL.lock().unwrap();
            if let Some(c) = g.as_mut() {
                c.finished[w] = true;
                c.turn = None;
            }
            WORKER.with(|x| x.set(None));
            drop(g);
            CV.notify_all();
        }));
    }
    // controller
    let mut steps: Vec<Step> = Vec::new();
    let mut running: Option<usize> = None;
    let mut deadlock = false;
    // wait until every worker is parked at "start"
    {
        let mut g = CTL.lock().unwrap();
        loop {
            let c = g.as_ref().unwrap();
            if c.parked_at.iter().all(|p| p.is_some()) {
                break;
            }
            let (ng, to) = CV.wait_timeout(g, std::time::Duration::from_secs(20)).unwrap();
            g = ng;
            if to.timed_out() {
                deadlock = true;
                break;
            }
        }
    }
    while !deadlock {
        let mut g = CTL.lock().unwrap();
        // wait for the baton to come back
        loop {
            let c = g.as_ref().unwrap();
            if c.turn.is_none() {
                break;
            }
            let (ng, to) = CV.wait_timeout(g, std::time::Duration::from_secs(20)).unwrap();
            g = ng;
            if to.timed_out() {
                deadlock = true;
                break;
            }
        }
        if deadlock {
            break;
        }
        let c = g.as_mut().unwrap();
        if c.finished.iter().all(|&f| f) {
            break;
        }
        let mut enabled: Vec<usize> = Vec::new();
        if let Some(r) = running {
            if !c.finished[r] && c.parked_at[r].is_some() {
                enabled.push(r);
            }
        }
        for w in 0..n {
            if !c.finished[w] && c.parked_at[w].is_some() && Some(w) != running.filter(|r| enabled.first() == Some(r)) {
                if !enabled.contains(&w) {
                    enabled.push(w);
                }
            }
        }
        if enabled.is_empty() {
            deadlock = true;
            break;
        }
        let i = steps.len();
        let choice = if i < prefix.len() { prefix[i] } else { 0 };
        if choice >= enabled.len() {
            c.violations.push(format!("MACHINERY: replay diverged at step {} (choice {} of {} enabled)", i, choice, enabled.len()));
            deadlock = true;
            break;
        }
        let w = enabled[choice];
        steps.push(Step { worker: w, what: c.parked_at[w].clone().unwrap_or_default(), enabled: enabled.clone(), chosen: choice, running });
        running = Some(w);
        c.turn = Some(w);
        drop(g);
        CV.notify_all();
    }
    if deadlock {
        // release everybody so that the threads can end
        let mut g = CTL.lock().unwrap();
        if let Some(c) = g.as_mut() {
            c.active = false;
        }
        drop(g);
        CV.notify_all();
    }
    for h in handles {
        let _ = h.join();
    }
    let mut g = CTL.lock().unwrap();
    let c = g.take().unwrap();
    Execution {
        steps,
        results: results.iter().map(|r| r.lock().unwrap().clone()).collect(),
        violations: c.violations,
        init_runs: c.init_runs,
        init_by: c.init_by,
        deadlock,
    }
}

fn preemptions(steps: &[Step], upto: usize) -> usize {
    steps[..upto].iter().filter(|s| s.running.is_some() && s.enabled.first() == s.running.as_ref() && s.chosen != 0).count()
}

pub struct SchedStats {
    pub executions: u64,
    pub max_points: usize,
    pub with_preemption: u64,
    pub outcomes: HashSet<String>,
    pub attributions: HashSet<String>,
}

/// depth-first exploration of all schedules with at most `bound` preemptions
pub fn explore(
    workers: &[Vec<AOp>],
    bound: usize,
    cold: &[Vec<Res>],
    runner: &dyn Fn(&[usize]) -> Execution,
    stats: &mut SchedStats,
    harness: &str,
    out: &mut Vec<Viol>,
    cap: u64,
) {
    let mut stack: Vec<Vec<usize>> = vec![vec![]];
    while let Some(prefix) = stack.pop() {
        if stats.executions >= cap || crate::ev::flooded() {
            break;
        }
        let x = runner(&prefix);
        stats.executions += 1;
        stats.max_points = stats.max_points.max(x.steps.len());
        if preemptions(&x.steps, x.steps.len()) > 0 {
            stats.with_preemption += 1;
        }
        stats.outcomes.insert(format!("{:?}", x.results));
        stats.attributions.insert(format!("{:?}", x.init_by));
        let choices: Vec<usize> = x.steps.iter().map(|s| s.chosen).collect();
        let case = json!({"kind": "schedule", "harness": harness, "workers": workers.iter().map(|w| w.iter().map(|o| o.json()).collect::<Vec<_>>()).collect::<Vec<_>>(), "choices": choices});
        let mut bad: Vec<(String, String)> = Vec::new();
        if x.deadlock {
            bad.push(("C13/deadlock".into(), "no worker can make progress (or a call did not return within 20 s)".into()));
        }
        for v in &x.violations {
            bad.push((if v.starts_with("MACHINERY") { "MACHINERY/replay-diverged".into() } else { "C13/instance-shared".into() }, v.clone()));
        }
        for (w, rs) in x.results.iter().enumerate() {
            for (k, r) in rs.iter().enumerate() {
                if cold[w].get(k) != Some(r) {
                    bad.push(("C13/schedule-changes-result".into(), format!("worker {} call #{} returns {:x?} under this schedule but {:x?} as the first call of a fresh thread", w, k + 1, trunc(r), trunc(&cold[w][k]))));
                }
            }
            if rs.len() != workers[w].len() && !x.deadlock {
                bad.push(("C13/worker-died".into(), format!("worker {} finished {} of {} calls", w, rs.len(), workers[w].len())));
            }
        }
        for (k, &n) in x.init_runs.iter().enumerate() {
            let limit = if k == 3 { 2 } else { 1 }; // object 3 = the two reversed pattern tables
            if n > limit {
                bad.push(("C13/initialiser-ran-twice".into(), format!("initialiser of lazy table {} ran {} times in one process", k, n)));
            }
        }
        if !bad.is_empty() {
            // a violation must reproduce from its recorded schedule
            let y = runner(&choices);
            let same = format!("{:?}", y.results) == format!("{:?}", x.results) && y.violations == x.violations && y.steps.len() == x.steps.len();
            if !same {
                out.push(viol("MACHINERY/not-reproducible", "a violating schedule did not reproduce identically on replay".into(), case.clone()));
            } else {
                for (c, w) in bad {
                    out.push(viol(&c, w, case.clone()));
                }
            }
            if out.len() > 20 {
                break;
            }
        }
        for i in prefix.len()..x.steps.len() {
            let s = &x.steps[i];
            let base = preemptions(&x.steps, i);
            let running_enabled = s.running.is_some() && s.enabled.first() == s.running.as_ref();
            let cost = base + if running_enabled { 1 } else { 0 };
            if cost > bound {
                continue;
            }
            for alt in 1..s.enabled.len() {
                let mut p: Vec<usize> = x.steps[..i].iter().map(|s| s.chosen).collect();
                p.push(alt);
                stack.push(p);
            }
        }
    }
}
fn trunc(r: &Res) -> Vec<u64> {
    r.iter().take(6).copied().collect()
}

fn exec_to_json(x: &Execution) -> Value {
    json!({
        "steps": x.steps.iter().map(|s| json!({"w": s.worker, "what": s.what, "enabled": s.enabled, "chosen": s.chosen, "running": s.running})).collect::<Vec<_>>(),
        "results": x.results,
        "violations": x.violations,
        "init_runs": x.init_runs,
        "init_by": x.init_by.iter().map(|(k, v)| (k.to_string(), *v)).collect::<BTreeMap<String, usize>>(),
        "deadlock": x.deadlock,
    })
}
fn exec_from_json(v: &Value) -> Execution {
    let steps = v["steps"].as_array().map(|a| {
        a.iter()
            .map(|s| Step {
                worker: s["w"].as_u64().unwrap_or(0) as usize,
                what: s["what"].as_str().unwrap_or("").to_string(),
                enabled: s["enabled"].as_array().map(|e| e.iter().map(|x| x.as_u64().unwrap_or(0) as usize).collect()).unwrap_or_default(),
                chosen: s["chosen"].as_u64().unwrap_or(0) as usize,
                running: s["running"].as_u64().map(|x| x as usize),
            })
            .collect()
    });
    let results: Vec<Vec<Res>> = serde_json::from_value(v["results"].clone()).unwrap_or_default();
    let mut init_runs = [0u32; 4];
    if let Some(a) = v["init_runs"].as_array() {
        for (i, x) in a.iter().enumerate().take(4) {
            init_runs[i] = x.as_u64().unwrap_or(0) as u32;
        }
    }
    let init_by = v["init_by"].as_object().map(|m| m.iter().map(|(k, x)| (k.parse().unwrap_or(0), x.as_u64().unwrap_or(0) as usize)).collect()).unwrap_or_default();
    Execution {
        steps: steps.unwrap_or_default(),
        results,
        violations: v["violations"].as_array().map(|a| a.iter().filter_map(|x| x.as_str().map(|s| s.to_string())).collect()).unwrap_or_default(),
        init_runs,
        init_by,
        deadlock: v["deadlock"].as_bool().unwrap_or(true),
    }
}

/// child-process entry: one execution with cold globals, printed as JSON
pub fn sched_child(harness: &str, prefix_json: &str) {
    let prefix: Vec<usize> = serde_json::from_str(prefix_json).unwrap_or_default();
    let workers = harness_workers(harness);
    let x = run_execution(&workers, &prefix);
    println!("{}", exec_to_json(&x));
}

// ======================================================================== auxiliary free-running pass
// NOT part of the exhaustive exploration and never used to claim that the property holds: shared
// state that a change introduces outside the hook points (hand-rolled atomics, new lazy tables) is
// invisible to the baton scheduler. This pass starts fresh processes in which several real threads
// make their first calls at the same instant (spin barrier) and compares every result with the
// sequential cold reference. A discrepancy is a genuine violation; silence means nothing.

/// first-touch alphabet (pure constants: building it touches no lazy table of the library)
pub fn race_alphabet() -> Vec<AOp> {
    use crate::refcodec::{encode, Tuple};
    let id = |face, quintant, s, res| encode(Tuple { face, quintant, s, res }).unwrap();
    vec![
        AOp::Lookup(12.3, 45.6, 0),
        AOp::Lookup(-120.0, -35.0, 1),
        AOp::Lookup(100.0, 10.0, 2),
        AOp::Lookup(-60.0, 60.0, 7),
        AOp::Lookup(151.2, -33.9, 29),
        AOp::Lookup(-3.7, 40.4, 26),
        AOp::Centre(id(10, 0, 5, 3)),
        AOp::Centre(id(7, 3, 0x2_aaaa_aaaa_aaaa, 26)),
        AOp::Centre(id(2, 1, 0x55_5555_5555_5555, 29)),
        AOp::Boundary(id(5, 4, 77, 5), Some(3)),
        AOp::Children(id(1, 2, 9, 4)),
        AOp::Parent(id(8, 1, 1234, 7)),
        AOp::Uncompact(vec![id(6, 0, 0, 1)], 4),
        AOp::Compact(crate::refcodec::children(id(3, 3, 0, 1))),
        // direct first users of module-level tables
        AOp::Authalic(true, 0.7),
        AOp::Authalic(false, -0.4),
        AOp::IjToS(20.3, 11.2, 6, 0),
        AOp::IjToS(11.2, 20.3, 6, 2),
        AOp::IjToS(7.9, 30.1, 6, 4),
        AOp::SToAnchor(0xd17e_f895_adb6, 24, 0),
        AOp::SToAnchor(1627, 6, 3),
        AOp::Nearest([0.3, -0.5, 0.81]),
        AOp::Deser(id(10, 0, 5, 3)),
        AOp::Deser(id(1, 4, 0, 1)),
    ]
}

/// child entry: run one op per thread, all released together; print the results as JSON
pub fn race_child(assign_json: &str) {
    // first element = stagger (extra spin iterations per thread index), rest = op index per thread
    let mut assign: Vec<usize> = serde_json::from_str(assign_json).unwrap_or_default();
    let stagger = if assign.is_empty() { 0 } else { assign.remove(0) };
    let alpha = race_alphabet();
    let n = assign.len();
    let gate = std::sync::Arc::new(std::sync::atomic::AtomicUsize::new(0));
    let hs: Vec<_> = assign
        .iter()
        .enumerate()
        .map(|(t, &i)| {
            let op = alpha[i % alpha.len()].clone();
            let gate = gate.clone();
            std::thread::spawn(move || {
                gate.fetch_add(1, Ordering::SeqCst);
                while gate.load(Ordering::SeqCst) < n {
                    std::hint::spin_loop();
                }
                for _ in 0..(t * stagger) {
                    std::hint::spin_loop();
                }
                let first = run_aop(&op);
                let second = run_aop(&op);
                (first, second)
            })
        })
        .collect();
    let rs: Vec<(Res, Res)> = hs.into_iter().map(|h| h.join().unwrap_or((err_bits("thread died"), vec![]))).collect();
    println!("{}", serde_json::to_string(&rs).unwrap());
}


// ======================================================================== first histories in fresh processes
// Process-wide state (a OnceLock filled by whatever call comes first, a budget tuned on the first 1000
// calls, a table that is exact until it is full) cannot be reset inside one process: every check process
// has ONE first call. This pass starts one fresh process per *prelude* (a short named history made of
// constants only), lets it run the prelude and then a fixed battery of calls, and requires all processes
// to print the same bits. Preludes x battery are enumerated completely; each process is one execution.

pub fn prelude_names() -> Vec<String> {
    let mut v: Vec<String> = vec!["none", "world-to-0", "world-to-1", "world-to-2", "world-targets-descending", "world-targets-five", "uncompact-world-3", "easy-lookups-1000", "easy-lookups-70000", "fine-lookup-first", "coarse-lookup-first", "foreign-triangle", "res0-first", "boundary-first", "compact-first", "hex-first", "bad-id-first", "many-fine-cells", "threads-300"]
        .into_iter()
        .map(String::from)
        .collect();
    for i in 0..race_alphabet().len() {
        v.push(format!("op-{}", i));
    }
    v
}

fn run_prelude(name: &str) {
    let look = |lon: f64, lat: f64, r: i32| {
        let _ = subj::lookup(lon, lat, r);
    };
    match name {
        "none" => {}
        "world-to-0" => drop(subj::children(0, Some(0))),
        "world-to-1" => drop(subj::children(0, Some(1))),
        "world-to-2" => drop(subj::children(0, Some(2))),
        "world-targets-descending" => {
            for t in [4, 3, 2, 1, 0] {
                let _ = subj::children(0, Some(t));
            }
        }
        "world-targets-five" => {
            for t in [0, 1, 2, 3, 4, 5, 0, 1] {
                let _ = subj::uncompact(&[0], t);
            }
        }
        "uncompact-world-3" => drop(subj::uncompact(&[0], 3)),
        "easy-lookups-1000" | "easy-lookups-70000" => {
            // the same cell centre again and again: the easiest possible lookups
            let n = if name.ends_with("70000") { 70_000 } else { 1000 };
            let c = crate::refcodec::encode(crate::refcodec::Tuple { face: 2, quintant: 1, s: 0x155, res: 6 }).unwrap();
            if let Ok((lon, lat)) = subj::centre(c) {
                for _ in 0..n {
                    look(lon, lat, 6);
                }
            }
        }
        "fine-lookup-first" => look(12.3, 45.6, 29),
        "coarse-lookup-first" => look(-77.0, -12.0, 0),
        "foreign-triangle" => {
            use a5::coordinate_systems::{Cartesian, FaceTriangle, SphericalTriangle};
            let _ = subj::guard(|| {
                let st = SphericalTriangle::new(Cartesian::new(0.0, 0.0, 1.0), Cartesian::new(1.0, 0.0, 0.0), Cartesian::new(0.0, 1.0, 0.0));
                let ft = FaceTriangle::new(Face::new(0.0, 0.0), Face::new(1.0, 0.0), Face::new(0.0, 1.0));
                let p = a5::projections::polyhedral::PolyhedralProjection::new();
                let c = p.inverse(Face::new(0.25, 0.25), ft, st);
                Ok(c.x())
            });
        }
        "res0-first" => drop(subj::guard(|| a5::get_res0_cells())),
        "boundary-first" => {
            let c = crate::refcodec::encode(crate::refcodec::Tuple { face: 7, quintant: 3, s: 0x2d, res: 5 }).unwrap();
            let _ = subj::boundary(c, true, Some(7));
        }
        "compact-first" => drop(subj::compact(&crate::refcodec::all_cells(1))),
        "hex-first" => drop(subj::guard_val(|| a5::hex_to_u64("ffffffffffffffffff"))),
        "bad-id-first" => {
            let _ = subj::centre(1);
            let _ = subj::children(u64::MAX, Some(3));
            let _ = subj::uncompact(&[7], 3);
        }
        "many-fine-cells" => {
            // more distinct fine cells than any 2^16-entry table holds, then the battery revisits some
            let base = crate::refcodec::all_cells(0);
            let q = crate::refcodec::children(base[4])[1];
            let mut c = q;
            for d in [1usize, 3, 0, 2, 2, 1, 0, 3, 1, 2, 0] {
                c = crate::refcodec::children(c)[d];
            }
            let mut fine = crate::refcodec::descendants(c, 20);
            fine.extend(crate::refcodec::descendants(crate::refcodec::children(crate::refcodec::parent(c).unwrap())[3], 20).into_iter().take(64));
            for x in fine {
                let _ = subj::centre(x);
            }
        }
        "threads-300" => {
            for i in 0..300 {
                let _ = std::thread::spawn(move || {
                    let _ = subj::lookup(i as f64 * 0.7 - 100.0, (i % 90) as f64 - 45.0, (i % 30) as i32);
                })
                .join();
            }
        }
        other => {
            if let Some(i) = other.strip_prefix("op-").and_then(|x| x.parse::<usize>().ok()) {
                let a = race_alphabet();
                let _ = run_aop(&a[i % a.len()]);
            }
        }
    }
}

/// child-process entry: prelude by name, then the battery read from a JSON file; prints one JSON array of results
pub fn first_child(prelude: &str, battery_file: &str) {
    let body = std::fs::read_to_string(battery_file).unwrap_or_else(|_| "[]".into());
    let ops: Vec<AOp> = serde_json::from_str::<Value>(&body).ok().and_then(|v| v.as_array().map(|a| a.iter().filter_map(AOp::from_json).collect())).unwrap_or_default();
    run_prelude(prelude);
    // the battery on a fresh thread of this process and once more on the main thread
    let ops2 = ops.clone();
    let a: Vec<Res> = in_fresh_thread(move || ops2.iter().map(run_aop).collect());
    let b: Vec<Res> = ops.iter().map(run_aop).collect();
    println!("{}", serde_json::to_string(&(a, b)).unwrap());
}

/// the battery: public calls whose results process-wide state could change (built in the parent, which may
/// use the library freely)
pub fn first_battery(quick: bool) -> Vec<AOp> {
    let mut ops = api_ops();
    let base = crate::refcodec::all_cells(0);
    for t in -1..=3 {
        ops.push(AOp::ChildrenTo(0, t));
        ops.push(AOp::Uncompact(vec![0], t));
    }
    ops.push(AOp::Uncompact(vec![0], 4));
    let fine = crate::refcodec::encode(crate::refcodec::Tuple { face: 9, quintant: 2, s: 0x1b2d3, res: 11 }).unwrap();
    for t in [0, 1, 2, 5] {
        ops.push(AOp::ParentTo(fine, t));
        ops.push(AOp::ParentTo(base[5], -1));
    }
    // lookups that are not answered by their first estimate (the ones a trimmed probe budget loses)
    for fam in lookup_neighbourhoods(true).into_iter().take(if quick { 4 } else { 12 }) {
        ops.extend(fam.into_iter().take(40));
    }
    // cells around the 65 536th fine cell of the "many-fine-cells" prelude
    {
        let q = crate::refcodec::children(base[4])[1];
        let mut c = q;
        for d in [1usize, 3, 0, 2, 2, 1, 0, 3, 1, 2, 0] {
            c = crate::refcodec::children(c)[d];
        }
        let sib = crate::refcodec::descendants(crate::refcodec::children(crate::refcodec::parent(c).unwrap())[3], 20);
        let own = crate::refcodec::descendants(c, 20);
        for x in [own[0], own[1], own[65535], sib[0], sib[1], sib[2], sib[63]] {
            ops.push(AOp::Centre(x));
            ops.push(AOp::Boundary(x, Some(1)));
        }
    }
    ops
}

pub fn first_history_pass(verif_dir: &str, quick: bool) -> (u64, u64, Vec<Viol>) {
    let exe = format!("{}/target/release/a5check", verif_dir);
    let battery = first_battery(quick);
    let dir = format!("{}/target/first-history", verif_dir);
    let _ = std::fs::create_dir_all(&dir);
    let file = format!("{}/battery-{}.json", dir, std::process::id());
    if std::fs::write(&file, serde_json::to_string(&battery.iter().map(|o| o.json()).collect::<Vec<_>>()).unwrap()).is_err() {
        return (0, 0, vec![viol("MACHINERY/first-history", "cannot write the battery file".into(), json!({"kind": "machinery"}))]);
    }
    let names = prelude_names();
    let outs: Vec<(String, Option<(Vec<Res>, Vec<Res>)>)> = names
        .par_iter()
        .map(|n| {
            let o = std::process::Command::new(&exe).args(["C13", "--first-child", n, &file]).env("VERIF_DIR", verif_dir).output();
            let parsed = o.ok().and_then(|o| {
                let s = String::from_utf8_lossy(&o.stdout).to_string();
                s.lines().rev().find(|l| l.starts_with('[')).and_then(|l| serde_json::from_str::<(Vec<Res>, Vec<Res>)>(l).ok())
            });
            (n.clone(), parsed)
        })
        .collect();
    let _ = std::fs::remove_file(&file);
    let mut out = Vec::new();
    let reference = outs.iter().find(|(n, _)| n == "none").and_then(|(_, r)| r.clone());
    let reference = match reference {
        Some(r) => r,
        None => return (0, 0, vec![viol("C13/first-history", "the process without a prelude produced no output (it died)".into(), json!({"kind": "first-history", "prelude": "none"}))]),
    };
    let mut compared = 0u64;
    for (n, r) in &outs {
        match r {
            None => out.push(viol("C13/first-history", format!("the fresh process with prelude '{}' produced no output (a call aborted or the process died)", n), json!({"kind": "first-history", "prelude": n}))),
            Some((a, b)) => {
                for (which, v) in [("a fresh thread", a), ("the main thread", b)] {
                    for (i, x) in v.iter().enumerate() {
                        compared += 1;
                        if i < reference.0.len() && *x != reference.0[i] {
                            out.push(viol(
                                "C13/first-history",
                                format!("in a fresh process whose history starts with the prelude '{}', {} (on {}) returns {:x?}; in a fresh process without the prelude it returns {:x?}", n, battery[i].json(), which, trunc(x), trunc(&reference.0[i])),
                                json!({"kind": "first-history", "prelude": n, "op": battery[i].json()}),
                            ));
                            break;
                        }
                    }
                }
            }
        }
    }
    // one violation per prelude is enough
    out.truncate(6);
    (names.len() as u64, compared, out)
}

// ======================================================================== Miri schedule pass
// Miri interprets the program and schedules its threads itself: deterministically for a given seed,
// with preemptions possible at every basic block - also inside code that has no hook points. Each
// run of /verif/miri-harness releases 2-3 threads that make first calls from `race_ops::alphabet()`
// and compares them with the native sequential results. Seeds 0..N enumerate N reproducible
// schedules per assignment (a bounded sample of the schedule space, reproducible by seed).

pub struct MiriStats {
    pub available: bool,
    pub assignments: u64,
    pub seeds_per_assignment: u64,
    pub reports: Vec<String>,
}

fn miri_command(verif_dir: &str, flags: &str, args: &[String]) -> Option<(bool, String)> {
    let o = std::process::Command::new("cargo")
        .args(["+nightly", "miri", "run", "--offline", "-q", "--manifest-path", &format!("{}/miri-harness/Cargo.toml", verif_dir), "--"])
        .args(args)
        .env("MIRIFLAGS", flags)
        .env("CARGO_TARGET_DIR", format!("{}/target/miri", verif_dir))
        .env("CARGO_NET_OFFLINE", "true")
        .output()
        .ok()?;
    let mut text = String::from_utf8_lossy(&o.stdout).to_string();
    text.push_str(&String::from_utf8_lossy(&o.stderr));
    Some((o.status.success(), text))
}

fn miri_args(assign: &[usize], expect: &[Res]) -> Vec<String> {
    assign.iter().map(|&i| format!("{}:{}", i, expect[i].iter().map(|x| format!("{:x}", x)).collect::<Vec<_>>().join(","))).collect()
}

pub fn miri_pass(verif_dir: &str, quick: bool) -> (MiriStats, Vec<Viol>) {
    let alpha = crate::race_ops::alphabet();
    let expect: Vec<Res> = alpha.iter().map(|&op| in_fresh_thread(move || crate::race_ops::run(op))).collect();
    let mut st = MiriStats { available: false, assignments: 0, seeds_per_assignment: if quick { 16 } else { 48 }, reports: vec![] };
    let mut out = Vec::new();
    const BASE: &str = "-Zmiri-disable-isolation -Zmiri-ignore-leaks -Zmiri-deterministic-floats";
    // availability probe (one thread, one seed); an unusable Miri never fails the check
    match miri_command(verif_dir, &format!("{} -Zmiri-seed=0", BASE), &miri_args(&[0], &expect)) {
        Some((true, _)) => st.available = true,
        Some((false, t)) => {
            st.reports.push(format!("miri unavailable or reference mismatch under Miri: {}", t.lines().filter(|l| !l.starts_with("R ")).take(3).collect::<Vec<_>>().join(" | ")));
            return (st, out);
        }
        None => {
            st.reports.push("cargo +nightly miri could not be started".into());
            return (st, out);
        }
    }
    let n = alpha.len();
    let mut assigns: Vec<Vec<usize>> = Vec::new();
    if quick {
        assigns.extend([vec![0, 0, 1], vec![2, 3], vec![6, 7, 6], vec![9, 11], vec![10, 11], vec![10, 10], vec![11, 11, 10]]);
    } else {
        for i in 0..n {
            assigns.push(vec![i, i]);
            for j in (i + 1)..n {
                assigns.push(vec![i, j]);
            }
        }
        assigns.push(vec![0, 0, 1]);
        assigns.push(vec![6, 7, 6]);
        assigns.push(vec![9, 10, 11]);
    }
    // one process per (assignment, seed), 16 at a time: a single-seed run takes well under a second
    let jobs: Vec<(Vec<usize>, u64)> = assigns.iter().flat_map(|a| (0..st.seeds_per_assignment).map(move |k| (a.clone(), k))).collect();
    st.assignments = assigns.len() as u64;
    let results: Vec<(Vec<usize>, u64, Option<(bool, String)>)> = jobs
        .par_iter()
        .map(|(a, k)| {
            // three preemption regimes: Miri's default (1 % per basic block), 5 % and 25 %
            let rate = ["", " -Zmiri-preemption-rate=0.05", " -Zmiri-preemption-rate=0.25"][(*k % 3) as usize];
            let flags = format!("{} -Zmiri-seed={}{}", BASE, k, rate);
            (a.clone(), *k, miri_command(verif_dir, &flags, &miri_args(a, &expect)))
        })
        .collect();
    for (a, k, r) in results {
        if let Some((ok, text)) = r {
            if ok {
                continue;
            }
            if let Some(m) = text.lines().find(|l| l.starts_with("MISMATCH")) {
                out.push(viol(
                    "C13/schedule-changes-result",
                    format!("under Miri's scheduler (seed {}), threads calling {:?} together: {}", k, a.iter().map(|&i| format!("{:?}", alpha[i])).collect::<Vec<_>>(), m),
                    json!({"kind": "miri", "assignment": a, "seed": k.to_string()}),
                ));
            } else if text.contains("Data race detected") && text.contains("/repo/src/") {
                let msg = text.lines().filter(|l| l.contains("Data race detected") || l.contains("/repo/src/")).take(3).collect::<Vec<_>>().join(" | ");
                out.push(viol(
                    "C13/data-race",
                    format!("Miri (seed {}) reports a data race inside the library while threads call {:?} together: {}", k, a.iter().map(|&i| format!("{:?}", alpha[i])).collect::<Vec<_>>(), msg),
                    json!({"kind": "miri", "assignment": a, "seed": k.to_string()}),
                ));
            } else if st.reports.len() < 8 {
                let msg = text.lines().filter(|l| l.contains("error") || l.contains("Undefined Behavior") || l.contains("Data race")).take(2).collect::<Vec<_>>().join(" | ");
                st.reports.push(format!("assignment {:?} seed {}: {}", a, k, msg));
            }
        }
    }
    (st, out)
}

fn fixed_ids() -> (u64, u64) {
    // r=3 cell straddling a face edge and an r=5 cell on face 3 (constants: no lookup needed, so that
    // a cold process does not touch any lazy table while building the harness)
    (0x3ce0000000000000, 0x3c0e000000000000)
}

pub fn harness_workers(name: &str) -> Vec<Vec<AOp>> {
    let qb = plane_point(POp { face: 3, sector: 4, beyond: true, forward: false, on_seam: false });
    let qi = plane_point(POp { face: 3, sector: 4, beyond: false, forward: false, on_seam: false });
    let (seamcell, c5) = fixed_ids();
    match name {
        // two workers, colliding projection ops on the same face / sector / beyond the edge
        "warm" => vec![vec![AOp::Inv(3, qb), AOp::Inv(3, qi)], vec![AOp::Inv(3, qb), AOp::Centre(seamcell)]],
        // first-touch of every lazy table decided by the schedule (fresh process per execution)
        "cold" => vec![vec![AOp::Lookup(12.3, 45.6, 2), AOp::Inv(3, qb)], vec![AOp::Centre(c5), AOp::Lookup(12.3, 45.6, 1)]],
        // three workers, one op each
        "three" => vec![vec![AOp::Inv(3, qb)], vec![AOp::Inv(3, qb)], vec![AOp::Centre(seamcell)]],
        "api" => vec![vec![AOp::Lookup(-93.0, 26.0, 1), AOp::Centre(seamcell)], vec![AOp::Centre(seamcell), AOp::Lookup(-93.0, 26.0, 1)]],
        // "pair:i:j": two workers, one op each, taken from a small alphabet of colliding ops
        n if n.starts_with("pair:") => {
            let alpha = pair_alphabet();
            let ij: Vec<usize> = n[5..].split(':').filter_map(|x| x.parse().ok()).collect();
            if ij.len() == 2 && ij[0] < alpha.len() && ij[1] < alpha.len() {
                vec![vec![alpha[ij[0]].clone()], vec![alpha[ij[1]].clone()]]
            } else {
                vec![]
            }
        }
        _ => vec![],
    }
}

/// small alphabet of ops that would touch the same memo slots / lazy tables if anything were shared
pub fn pair_alphabet() -> Vec<AOp> {
    let qb = plane_point(POp { face: 3, sector: 4, beyond: true, forward: false, on_seam: false });
    let qi = plane_point(POp { face: 3, sector: 4, beyond: false, forward: false, on_seam: false });
    let qs = plane_point(POp { face: 3, sector: 5, beyond: false, forward: false, on_seam: true });
    let (seamcell, c5) = fixed_ids();
    vec![
        AOp::Inv(3, qb),
        AOp::Inv(3, qi),
        AOp::Inv(3, qs),
        AOp::Inv(7, qb),
        AOp::Centre(seamcell),
        AOp::Boundary(c5, Some(1)),
        AOp::Lookup(-93.0, 26.0, 1),
        AOp::Lookup(12.3, 45.6, 2),
    ]
}

fn cold_reference(workers: &[Vec<AOp>]) -> Vec<Vec<Res>> {
    workers
        .iter()
        .map(|ops| {
            ops.iter()
                .map(|op| {
                    let op = op.clone();
                    in_fresh_thread(move || run_aop(&op))
                })
                .collect()
        })
        .collect()
}

// ======================================================================== the check

fn phase(t0: &std::time::Instant, name: &str) {
    if std::env::var("A5_TIMING").is_ok() {
        eprintln!("[C13 timing] {:>8.1}s  {}", t0.elapsed().as_secs_f64(), name);
    }
}

pub fn run(tier: &str, verif_dir: &str) -> Report {
    let t0 = std::time::Instant::now();
    let mut rep = Report::new("model_checking");
    let quick = tier == "quick";
    // ---------------- (a) memo machine
    let (ctx, v) = memo_setup();
    rep.sink.extend(v);
    let ops = ctx.ops.clone();
    let histories = AtomicU64::new(0);
    let states: Mutex<HashSet<Vec<u16>>> = Mutex::new(HashSet::new());
    // all ordered pairs (a, b) and the echo (a, b, a)
    let pair_ops: Vec<POp> = if quick { ops.iter().copied().filter(|o| o.face % 3 == 0 || o.sector == 4).collect() } else { ops.clone() };
    let vs: Vec<Viol> = pair_ops
        .par_iter()
        .flat_map(|&a| {
            let mut out = Vec::new();
            let mut local: HashSet<Vec<u16>> = HashSet::new();
            for &b in &pair_ops {
                let (bm, v) = check_history(&ctx, &[a, b, a]);
                histories.fetch_add(1, Ordering::Relaxed);
                local.insert(bm);
                out.extend(v);
            }
            states.lock().unwrap().extend(local);
            out
        })
        .collect();
    rep.sink.extend(vs);
    phase(&t0, "memo pairs done");
    // all triples within a sector class (ops that can touch the same face-triangle slots)
    let sectors: Vec<u8> = if quick { vec![4] } else { (0..10).collect() };
    for sct in sectors {
        let cls: Vec<POp> = ops.iter().copied().filter(|o| o.sector == sct && (!quick || o.face < 6)).collect();
        let vs: Vec<Viol> = cls
            .par_iter()
            .flat_map(|&a| {
                let mut out = Vec::new();
                let mut local: HashSet<Vec<u16>> = HashSet::new();
                for &b in &cls {
                    for &c in &cls {
                        let (bm, v) = check_history(&ctx, &[a, b, c]);
                        histories.fetch_add(1, Ordering::Relaxed);
                        local.insert(bm);
                        out.extend(v);
                    }
                }
                states.lock().unwrap().extend(local);
                out
            })
            .collect();
        rep.sink.extend(vs);
    }
    phase(&t0, "memo triples done");
    // full-state BFS in 2-face x 2-sector universes
    let mut bfs_states = 0usize;
    let mut bfs_trans = 0usize;
    let face_pairs: Vec<(u8, u8)> = if quick { vec![(0, 1), (3, 9), (5, 11)] } else { (0..12u8).flat_map(|a| ((a + 1)..12).map(move |b| (a, b))).collect() };
    let sector_pairs: Vec<(u8, u8)> = if quick { vec![(4, 5), (9, 0)] } else { (0..10u8).map(|s| (s, (s + 1) % 10)).collect() };
    let unis: Vec<Vec<POp>> = face_pairs
        .iter()
        .flat_map(|&(fa, fb)| {
            sector_pairs.iter().map(move |&(sa, sb)| {
                let mut u = Vec::new();
                for f in [fa, fb] {
                    for s in [sa, sb] {
                        for beyond in [false, true] {
                            for forward in [false, true] {
                                u.push(POp { face: f, sector: s, beyond, forward, on_seam: false });
                                u.push(POp { face: f, sector: s, beyond, forward, on_seam: true });
                            }
                        }
                    }
                }
                u
            })
        })
        .collect();
    let res: Vec<(usize, usize, Vec<Viol>)> = unis.par_iter().map(|u| bfs_universe(&ctx, u)).collect();
    for (s, t, v) in res {
        bfs_states += s;
        bfs_trans += t;
        rep.sink.extend(v);
    }
    phase(&t0, "memo bfs done");
    // ---------------- API-level histories in fresh threads
    let aops = api_ops();
    let cold: Vec<Res> = aops
        .iter()
        .map(|op| {
            let op = op.clone();
            in_fresh_thread(move || run_aop(&op))
        })
        .collect();
    // cold reference must itself be reproducible
    for (i, op) in aops.iter().enumerate() {
        let o = op.clone();
        if in_fresh_thread(move || run_aop(&o)) != cold[i] {
            rep.sink.push(viol("C13/cold-nondeterministic", "the same first call in two fresh threads gives different bits".into(), json!({"kind": "api_history", "ops": [op.json()]})));
        }
    }
    let n = aops.len();
    let api_hist = AtomicU64::new(0);
    let check_api = |idx: Vec<usize>| -> Vec<Viol> {
        if crate::ev::flooded() {
            return vec![];
        }
        let ops: Vec<AOp> = idx.iter().map(|&i| aops[i].clone()).collect();
        let ops2 = ops.clone();
        let rs: Vec<Res> = in_fresh_thread(move || ops2.iter().map(run_aop).collect());
        api_hist.fetch_add(1, Ordering::Relaxed);
        for (k, r) in rs.iter().enumerate() {
            if *r != cold[idx[k]] {
                return vec![viol(
                    "C13/history-changes-result",
                    format!("call #{} ({}) returns {:x?} after this history but {:x?} as the first call of a fresh thread", k + 1, ops[k].json(), trunc(r), trunc(&cold[idx[k]])),
                    json!({"kind": "api_history", "ops": ops.iter().map(|o| o.json()).collect::<Vec<_>>()}),
                )];
            }
        }
        vec![]
    };
    let pairs: Vec<Vec<usize>> = (0..n).flat_map(|a| (0..n).map(move |b| vec![a, b, a])).collect();
    let vs: Vec<Viol> = pairs.into_par_iter().flat_map(|p| check_api(p)).collect();
    rep.sink.extend(vs);
    phase(&t0, "api pairs done");
    // tracks: short steps (1e-7 rad) across a line where the answer changes, in both directions
    let mut tracks = track_histories();
    tracks.extend(vertex_histories(if quick { 4 } else { 24 }));
    let ntracks = tracks.len();
    let tv: Vec<Viol> = tracks
        .into_par_iter()
        .flat_map(|ops| {
            if crate::ev::flooded() {
                return vec![];
            }
            let coldv: Vec<Res> = ops
                .iter()
                .map(|op| {
                    let op = op.clone();
                    in_fresh_thread(move || run_aop(&op))
                })
                .collect();
            let ops2 = ops.clone();
            let rs: Vec<Res> = in_fresh_thread(move || ops2.iter().map(run_aop).collect());
            api_hist.fetch_add(1, Ordering::Relaxed);
            for k in 0..rs.len() {
                if rs[k] != coldv[k] {
                    return vec![viol(
                        "C13/history-changes-result",
                        format!("call #{} of a track ({}) returns {:x?} after the preceding steps but {:x?} as the first call of a fresh thread", k + 1, ops[k].json(), trunc(&rs[k]), trunc(&coldv[k])),
                        json!({"kind": "api_history", "ops": ops.iter().map(|o| o.json()).collect::<Vec<_>>()}),
                    )];
                }
            }
            vec![]
        })
        .collect();
    rep.sink.extend(tv);
    rep.set("track_histories", json!(ntracks));
    phase(&t0, "tracks done");
    // pair circuits: all ordered pairs of a family of calls on one thread
    {
        let mut fams = lookup_neighbourhoods(quick);
        let nneigh = fams.len();
        fams.extend(family_circuits(quick));
        let res: Vec<(u64, Option<Viol>)> = fams.par_iter().map(|ops| circuit(ops, None)).collect();
        let mut calls = 0u64;
        for (c, v) in res {
            calls += c;
            rep.sink.extend(v.into_iter().collect());
        }
        rep.set("pair_circuits", json!({"families": fams.len(), "lookup_neighbourhoods": nneigh, "calls": calls, "largest_family": fams.iter().map(|f| f.len()).max().unwrap_or(0)}));
        api_hist.fetch_add(fams.iter().map(|f| (f.len() * f.len()) as u64).sum::<u64>(), Ordering::Relaxed);
    }
    phase(&t0, "circuits done");
    // first histories in fresh processes
    if !crate::ev::flooded() {
        let (procs, compared, v) = first_history_pass(verif_dir, quick);
        rep.sink.extend(v);
        rep.set("first_history_processes", json!({"preludes": procs, "results_compared": compared}));
    }
    phase(&t0, "first-history done");
    // long histories (counter wraps, tables that fill up)
    {
        let mut calls = 0u64;
        let fams = long_families(quick);
        let nf = fams.len();
        // (each family on its own fresh thread, families side by side: per-thread state is not shared, and
        // process-wide tables only fill faster)
        let res: Vec<(u64, Vec<Viol>)> = fams.into_par_iter().map(|(name, x, filler, keys)| long_history(&name, x, filler, keys)).collect();
        for (c, v) in res {
            calls += c;
            rep.sink.extend(v);
        }
        rep.set("long_histories", json!({"families": nf, "calls": calls, "distinct_calls_per_family": 70000, "exact_gaps": [255, 256, 257, 1023, 1024, 1025, 4096, 65535, 65536, 65537]}));
    }
    phase(&t0, "long histories done");
    let tn = if quick { 12.min(n) } else { n.min(60) };
    let tsel: Vec<usize> = (0..n).step_by((n / tn).max(1)).take(tn).collect();
    let triples: Vec<Vec<usize>> = tsel.iter().flat_map(|&a| tsel.iter().flat_map(move |&b| (0..n).map(move |c| vec![a, b, c]))).collect();
    let triples: Vec<Vec<usize>> = if quick { triples.into_iter().filter(|t| tsel.contains(&t[2])).collect() } else { triples };
    let vs: Vec<Viol> = triples.into_par_iter().flat_map(|p| check_api(p)).collect();
    rep.sink.extend(vs);

    phase(&t0, "api triples done");
    // ---------------- (b) schedules
    let mut sched_out: Vec<Viol> = Vec::new();
    let mut sstats = SchedStats { executions: 0, max_points: 0, with_preemption: 0, outcomes: HashSet::new(), attributions: HashSet::new() };
    let mut sched_summary = Vec::new();
    let exe = format!("{}/target/release/a5check", verif_dir);
    for (name, bound, in_process) in [("warm", if quick { 2 } else { 3 }, true), ("three", if quick { 1 } else { 2 }, true), ("api", if quick { 1 } else { 2 }, true), ("cold", if quick { 1 } else { 2 }, false)] {
        let workers = harness_workers(name);
        let coldref = cold_reference(&workers);
        let before = sstats.executions;
        let cap = before + if quick { 6000 } else { 150000 };
        if in_process {
            let runner = |p: &[usize]| run_execution(&workers, p);
            explore(&workers, bound, &coldref, &runner, &mut sstats, name, &mut sched_out, cap);
        } else {
            let runner = |p: &[usize]| -> Execution {
                let o = std::process::Command::new(&exe).args(["C13", "--sched-child", name, &serde_json::to_string(p).unwrap()]).output();
                match o {
                    Ok(o) => {
                        let s = String::from_utf8_lossy(&o.stdout);
                        match serde_json::from_str::<Value>(s.lines().last().unwrap_or("")) {
                            Ok(v) => exec_from_json(&v),
                            Err(_) => Execution { steps: vec![], results: vec![], violations: vec![format!("MACHINERY: child produced no trace (status {:?})", o.status)], init_runs: [0; 4], init_by: BTreeMap::new(), deadlock: true },
                        }
                    }
                    Err(e) => Execution { steps: vec![], results: vec![], violations: vec![format!("MACHINERY: cannot start child: {}", e)], init_runs: [0; 4], init_by: BTreeMap::new(), deadlock: true },
                }
            };
            explore(&workers, bound, &coldref, &runner, &mut sstats, name, &mut sched_out, cap);
        }
        let done = sstats.executions - before;
        sched_summary.push(json!({"harness": name, "workers": workers.len(), "preemption_bound": bound, "executions": done, "cap_hit": sstats.executions >= cap, "fresh_process_per_execution": !in_process}));
    }
    // every unordered pair of the small alphabet as a two-worker harness
    {
        let na = pair_alphabet().len();
        let bound = if quick { 1 } else { 2 };
        let before = sstats.executions;
        let mut pairs_done = 0;
        for i in 0..na {
            for j in i..na {
                let name = format!("pair:{}:{}", i, j);
                let workers = harness_workers(&name);
                let coldref = cold_reference(&workers);
                let cap = sstats.executions + 20000;
                let runner = |p: &[usize]| run_execution(&workers, p);
                explore(&workers, bound, &coldref, &runner, &mut sstats, &name, &mut sched_out, cap);
                pairs_done += 1;
            }
        }
        sched_summary.push(json!({"harness": "pair:i:j for all i<=j", "pairs": pairs_done, "workers": 2, "preemption_bound": bound, "executions": sstats.executions - before, "cap_hit": false, "fresh_process_per_execution": false}));
    }
    rep.sink.extend(sched_out);
    a5::verif::install(noop_hook);
    phase(&t0, "schedules done");
    // ---------------- auxiliary free-running pass (fresh processes, real concurrency; see above)
    let mut aux_children = 0u64;
    let mut aux_failed_children = 0u64;
    if !crate::ev::flooded() {
        let alpha = race_alphabet();
        let coldv: Vec<Res> = alpha
            .iter()
            .map(|op| {
                let op = op.clone();
                in_fresh_thread(move || run_aop(&op))
            })
            .collect();
        let threads = 8usize;
        let mut assigns: Vec<Vec<usize>> = Vec::new();
        for i in 0..alpha.len() {
            assigns.push(vec![i; threads]);
            for j in (i + 1)..alpha.len() {
                assigns.push((0..threads).map(|t| if t % 2 == 0 { i } else { j }).collect());
            }
        }
        let repeats = if quick { 1 } else { 8 };
        let staggers: &[usize] = if quick { &[0, 8, 60] } else { &[0, 2, 8, 30, 120] };
        let jobs_owned: Vec<(usize, Vec<usize>)> = (0..repeats).flat_map(|_| staggers.iter().flat_map(|&st| assigns.iter().map(move |a| (st, a.clone())))).collect();
        let jobs: Vec<&(usize, Vec<usize>)> = jobs_owned.iter().collect();
        // two children at a time: the threads of one child need real cores to collide
        let pool = rayon::ThreadPoolBuilder::new().num_threads(2).build().unwrap();
        let results: Vec<(Vec<usize>, Option<Vec<(Res, Res)>>)> = pool.install(|| {
            jobs.par_iter()
                .map(|(st, a)| {
                    let mut arg = vec![*st];
                    arg.extend(a.iter().copied());
                    let o = std::process::Command::new(&exe).args(["C13", "--race-child", &serde_json::to_string(&arg).unwrap()]).output();
                    let parsed = o.ok().and_then(|o| serde_json::from_str::<Vec<(Res, Res)>>(String::from_utf8_lossy(&o.stdout).lines().last().unwrap_or("")).ok());
                    (arg, parsed)
                })
                .collect()
        });
        for (a, r) in results {
            aux_children += 1;
            let r = match r {
                Some(r) => r,
                None => {
                    aux_failed_children += 1;
                    continue;
                }
            };
            for (t, (first, second)) in r.iter().enumerate() {
                let want = &coldv[a[t + 1] % alpha.len()];
                if first != want || second != want {
                    rep.sink.push(viol(
                        "C13/race-observed",
                        format!("free-running fresh process, {} threads released together: thread {} calling {} got {:x?} (then {:x?}), the sequential result is {:x?}", a.len() - 1, t, alpha[a[t + 1] % alpha.len()].json(), trunc(first), trunc(second), trunc(want)),
                        json!({"kind": "race", "assignment": a}),
                    ));
                    break;
                }
            }
        }
    }
    phase(&t0, "aux done");
    // ---------------- Miri schedule pass
    let (mst, mv) = if crate::ev::flooded() { (MiriStats { available: false, assignments: 0, seeds_per_assignment: 0, reports: vec!["skipped: the check had already recorded thousands of violations".into()] }, vec![]) } else { miri_pass(verif_dir, quick) };
    rep.sink.extend(mv);
    for r in &mst.reports {
        println!("NOTE (Miri, not a verdict): {}", r);
    }
    rep.set("miri_pass", json!({"available": mst.available, "assignments": mst.assignments, "seeds_per_assignment": mst.seeds_per_assignment, "reports": mst.reports}));
    rep.set("auxiliary_free_running_children", json!(aux_children));
    rep.set("auxiliary_children_without_output", json!(aux_failed_children));

    phase(&t0, "miri done");
    let nstates = states.lock().unwrap().len() + bfs_states;
    let h = histories.load(Ordering::Relaxed);
    rep.set("states", json!(nstates as u64));
    rep.set("transitions", json!(3 * h + bfs_trans as u64));
    rep.set("traces_validated_against_impl", json!(h + bfs_trans as u64 + api_hist.load(Ordering::Relaxed) + sstats.executions));
    rep.set("evaluations", json!(h + bfs_trans as u64 + api_hist.load(Ordering::Relaxed) + sstats.executions));
    rep.set("distinct_nontrivial", json!(nstates as u64 + sstats.with_preemption));
    rep.set("rule", json!(format!(
        "(a) memo machine: alphabet of 960 projection ops (12 faces x 10 sectors x inside/beyond edge x interior/exactly-on-the-sector-ray x forward/inverse) on fresh instances; {} histories (all ordered pairs with echo (a,b,a), all triples within a sector class); BFS to closure over the memo-table states of {} two-face x two-sector universes (16 ops each): every result bitwise equal to its cold value and every filled slot canonical in every state; {} API-level histories (all ordered pairs and triples of {} public calls), each in a fresh OS thread; (b) schedules: depth-first exploration of all schedules of real OS threads up to a preemption bound under a baton scheduler at the H3 hook points (memo reads/stores, entry/exit of forward/inverse, first two accesses of each lazy table): {} executions, {} with at least one preemption; monitors: results bitwise equal to the cold reference, instance exclusivity, initialisers at most once, deadlock; states = distinct memo-table states reached",
        h, unis.len(), api_hist.load(Ordering::Relaxed), n, sstats.executions, sstats.with_preemption)));
    rep.set("exhaustive", json!(sched_summary.iter().all(|s| s["cap_hit"] == false)));
    rep.set("schedule_harnesses", json!(sched_summary));
    rep.set("max_switch_points_per_execution", json!(sstats.max_points));
    rep.set("distinct_outcomes", json!(sstats.outcomes.len()));
    rep.set("distinct_initialisation_attributions", json!(sstats.attributions.len()));
    rep.set("memo_bfs_states", json!(bfs_states));
    rep.set("memo_bfs_transitions", json!(bfs_trans));
    {
        let deaths: Vec<String> = std::mem::take(&mut *THREAD_DEATHS.lock().unwrap());
        if !deaths.is_empty() {
            rep.sink.push(viol(
                "C13/thread-died",
                format!("{} helper threads making ordinary calls died from a panic that no call site could catch (first: {}): the library failed in per-thread set-up or tear-down, which depends on how many threads used it before", deaths.len(), deaths[0]),
                json!({"kind": "thread-death"}),
            ));
        }
        rep.set("helper_threads_that_died", json!(deaths.len()));
    }
    rep.set("api_histories", json!(api_hist.load(Ordering::Relaxed)));
    rep.sample(json!({"memo_history": [ops[17].json(), ops[18].json(), ops[17].json()]}));
    rep.sample(json!({"api_history": [aops[3].json(), aops[13].json()]}));
    rep.sample(json!({"schedule_harness": "warm", "workers": harness_workers("warm").iter().map(|w| w.iter().map(|o| o.json()).collect::<Vec<_>>()).collect::<Vec<_>>()}));
    rep.assume("switch points exist at the hook points only; memory-ordering effects below that granularity are not explored");
    rep.assume("auxiliary free-running pass (fresh processes, 8 threads released together, first-touch alphabet): sampling of real schedules, reported separately; its silence supports no claim; shared state introduced outside the hook points is invisible to the exhaustive scheduler");
    rep.assume("bounded: 2-3 workers, 1-2 calls each, preemption bound 1-3; histories of length <= 3 plus BFS closure in 16-op universes");
    rep
}

fn noop_hook(_p: Point) {}

pub fn replay(case: &Value, verif_dir: &str) -> Vec<Viol> {
    if case["kind"] == "first-history" {
        return first_history_pass(verif_dir, false).2;
    }
    if case["kind"] == "long-history" {
        let fam = case["family"].as_str().unwrap_or("");
        for (name, x, filler, keys) in long_families(false) {
            if name == fam {
                return long_history(&name, x, filler, keys).1;
            }
        }
        return vec![];
    }
    if case["kind"] == "circuit" {
        let ops: Vec<AOp> = case["ops"].as_array().map(|a| a.iter().filter_map(AOp::from_json).collect()).unwrap_or_default();
        let upto = case["upto"].as_u64().map(|x| x as usize);
        return circuit(&ops, upto).1.into_iter().collect();
    }
    match case["kind"].as_str().unwrap_or("") {
        "memo_history" => {
            let (ctx, mut v) = memo_setup();
            let hist: Vec<POp> = case["ops"].as_array().map(|a| a.iter().map(POp::from_json).collect()).unwrap_or_default();
            v.extend(check_history(&ctx, &hist).1);
            v
        }
        "api_history" => {
            let ops: Vec<AOp> = case["ops"].as_array().map(|a| a.iter().filter_map(AOp::from_json).collect()).unwrap_or_default();
            let cold: Vec<Res> = ops
                .iter()
                .map(|op| {
                    let op = op.clone();
                    in_fresh_thread(move || run_aop(&op))
                })
                .collect();
            let ops2 = ops.clone();
            let rs: Vec<Res> = in_fresh_thread(move || ops2.iter().map(run_aop).collect());
            if rs != cold {
                vec![viol("C13/history-changes-result", "results differ from the cold results".into(), case.clone())]
            } else {
                vec![]
            }
        }
        "miri" => {
            let a: Vec<usize> = case["assignment"].as_array().map(|x| x.iter().map(|v| v.as_u64().unwrap_or(0) as usize).collect()).unwrap_or_default();
            let seed = case["seed"].as_str().unwrap_or("0").to_string();
            let alpha = crate::race_ops::alphabet();
            let expect: Vec<Res> = alpha.iter().map(|&op| in_fresh_thread(move || crate::race_ops::run(op))).collect();
            let kk: u64 = seed.parse().unwrap_or(0);
            let rate = ["", " -Zmiri-preemption-rate=0.05", " -Zmiri-preemption-rate=0.25"][(kk % 3) as usize];
            let flags = format!("-Zmiri-disable-isolation -Zmiri-ignore-leaks -Zmiri-deterministic-floats -Zmiri-seed={}{}", seed, rate);
            match miri_command(verif_dir, &flags, &miri_args(&a, &expect)) {
                Some((false, t)) if t.contains("MISMATCH") => vec![viol("C13/schedule-changes-result", t.lines().find(|l| l.starts_with("MISMATCH")).unwrap_or("").to_string(), case.clone())],
                _ => vec![],
            }
        }
        "race" => {
            // not deterministic: re-run the same assignment in up to 300 fresh processes
            let a: Vec<usize> = case["assignment"].as_array().map(|x| x.iter().map(|v| v.as_u64().unwrap_or(0) as usize).collect()).unwrap_or_default();
            let alpha = race_alphabet();
            let coldv: Vec<Res> = alpha.iter().map(|op| { let op = op.clone(); in_fresh_thread(move || run_aop(&op)) }).collect();
            let exe = format!("{}/target/release/a5check", verif_dir);
            for _ in 0..300 {
                if let Ok(o) = std::process::Command::new(&exe).args(["C13", "--race-child", &serde_json::to_string(&a).unwrap()]).output() {
                    if let Ok(r) = serde_json::from_str::<Vec<(Res, Res)>>(String::from_utf8_lossy(&o.stdout).lines().last().unwrap_or("")) {
                        for (t, (f, s2)) in r.iter().enumerate() {
                            let want = &coldv[a[t + 1] % alpha.len()];
                            if f != want || s2 != want {
                                return vec![viol("C13/race-observed", format!("reproduced: thread {} differs from the sequential result", t), case.clone())];
                            }
                        }
                    }
                }
            }
            vec![]
        }
        "schedule" => {
            let name = case["harness"].as_str().unwrap_or("warm");
            let workers = harness_workers(name);
            let choices: Vec<usize> = case["choices"].as_array().map(|a| a.iter().map(|x| x.as_u64().unwrap_or(0) as usize).collect()).unwrap_or_default();
            let coldref = cold_reference(&workers);
            let mut out = Vec::new();
            let mut st = SchedStats { executions: 0, max_points: 0, with_preemption: 0, outcomes: HashSet::new(), attributions: HashSet::new() };
            if name == "cold" {
                let exe = format!("{}/target/release/a5check", verif_dir);
                let runner = |p: &[usize]| -> Execution {
                    let o = std::process::Command::new(&exe).args(["C13", "--sched-child", name, &serde_json::to_string(p).unwrap()]).output().unwrap();
                    let s = String::from_utf8_lossy(&o.stdout).to_string();
                    exec_from_json(&serde_json::from_str::<Value>(s.lines().last().unwrap_or("{}")).unwrap_or(json!({})))
                };
                // replay exactly this schedule (bound 0 from the full prefix explores only it)
                explore_one(&workers, &choices, &coldref, &runner, &mut st, name, &mut out);
            } else {
                let runner = |p: &[usize]| run_execution(&workers, p);
                explore_one(&workers, &choices, &coldref, &runner, &mut st, name, &mut out);
            }
            out
        }
        _ => vec![],
    }
}

fn explore_one(workers: &[Vec<AOp>], choices: &[usize], cold: &[Vec<Res>], runner: &dyn Fn(&[usize]) -> Execution, st: &mut SchedStats, name: &str, out: &mut Vec<Viol>) {
    // cap = 1 execution: only the given schedule
    let mut stack_stats = SchedStats { executions: 0, max_points: 0, with_preemption: 0, outcomes: HashSet::new(), attributions: HashSet::new() };
    let _ = st;
    let x = runner(choices);
    let case = json!({"kind": "schedule", "harness": name, "choices": choices});
    for v in &x.violations {
        out.push(viol("C13/instance-shared", v.clone(), case.clone()));
    }
    if x.deadlock {
        out.push(viol("C13/deadlock", "deadlock or hang".into(), case.clone()));
    }
    for (w, rs) in x.results.iter().enumerate() {
        for (k, r) in rs.iter().enumerate() {
            if cold[w].get(k) != Some(r) {
                out.push(viol("C13/schedule-changes-result", format!("worker {} call #{} differs from the cold reference", w, k + 1), case.clone()));
            }
        }
    }
    let _ = (workers, &mut stack_stats);
}
