pub mod c05;
pub mod cells;
pub mod frame;
pub mod golden;
pub mod proj;
pub mod purity;
pub mod graph;
pub mod hilbert;
pub mod longlists;
pub mod lookup;
pub mod partition;
pub mod sets;
pub mod total;

use crate::ev::{Report, Viol};
use serde_json::Value;

pub fn run(prop: &str, tier: &str, verif_dir: &str) -> Option<Report> {
    let _ = verif_dir;
    Some(match prop {
        "C05" => c05::run(tier),
        "C06" => golden::run(tier, verif_dir),
        "C07" => graph::run_c07(tier),
        "C20" => graph::run_c20(tier),
        "C08" => sets::run(8, tier),
        "C09" => sets::run(9, tier),
        "C10" => sets::run(10, tier),
        "C01" => lookup::run_c01(tier),
        "C02" => lookup::run_c02(tier),
        "C03" => partition::run(tier, verif_dir),
        "C04" => cells::run_c04(tier),
        "C11" => cells::run_c11(tier),
        "C12" => cells::run_c12(tier),
        "C13" => purity::run(tier, verif_dir),
        "C14" => total::run(tier, verif_dir),
        "C15" => proj::run_c15(tier),
        "C16" => proj::run_c16(tier),
        "C17" => hilbert::run(tier),
        "C18" => frame::run_c18(tier),
        "C19" => frame::run_c19(tier),
        _ => return None,
    })
}

pub fn replay(prop: &str, case: &Value, verif_dir: &str) -> Option<Vec<Viol>> {
    let _ = verif_dir;
    Some(match prop {
        "C05" => c05::replay(case),
        "C06" => golden::replay(case, verif_dir),
        "C07" => graph::replay_c07(case),
        "C20" => graph::replay_c20(case),
        "C08" => sets::replay(8, case),
        "C09" => sets::replay(9, case),
        "C10" => sets::replay(10, case),
        "C01" | "C02" => lookup::replay(prop, case),
        "C03" => partition::replay(case),
        "C04" | "C11" | "C12" => cells::replay(prop, case),
        "C13" => purity::replay(case, verif_dir),
        "C14" => total::replay(case),
        "C15" => proj::replay_c15(case),
        "C16" => proj::replay_c16(case),
        "C17" => hilbert::replay(case),
        "C18" => frame::replay_c18(case),
        "C19" => frame::replay_c19(case),
        _ => return None,
    })
}
