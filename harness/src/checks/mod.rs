pub mod c05;
pub mod graph;
pub mod sets;

use crate::ev::{Report, Viol};
use serde_json::Value;

pub fn run(prop: &str, tier: &str) -> Option<Report> {
    Some(match prop {
        "C05" => c05::run(tier),
        "C07" => graph::run_c07(tier),
        "C20" => graph::run_c20(tier),
        "C08" => sets::run(8, tier),
        "C09" => sets::run(9, tier),
        "C10" => sets::run(10, tier),
        _ => return None,
    })
}

pub fn replay(prop: &str, case: &Value) -> Option<Vec<Viol>> {
    Some(match prop {
        "C05" => c05::replay(case),
        "C07" => graph::replay_c07(case),
        "C08" => sets::replay(8, case),
        "C09" => sets::replay(9, case),
        "C10" => sets::replay(10, case),
        _ => return None,
    })
}
