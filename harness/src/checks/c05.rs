//! C05 — codec bijection and layout (reference-model conformance over all tuples r<=R).
use crate::ev::{viol, Report, Viol};
use crate::refcodec as rc;
use crate::subj;
use a5::core::utils::A5Cell;
use rayon::prelude::*;
use serde_json::{json, Value};
use std::sync::atomic::{AtomicU64, Ordering};

fn tuple_case(t: rc::Tuple) -> Value {
    json!({"kind": "tuple", "face": t.face, "quintant": t.quintant, "s": t.s, "res": t.res})
}

/// oracle for one valid tuple
pub fn check_tuple(t: rc::Tuple) -> (Option<u64>, Vec<Viol>) {
    let mut out = Vec::new();
    let want = rc::encode(t).expect("enumerator produced an invalid tuple");
    let cell = A5Cell { origin_id: t.face as u8, segment: t.quintant as usize, s: t.s, resolution: t.res };
    let got = subj::serialize(&cell);
    match &got {
        Ok(id) if *id == want => {}
        other => out.push(viol(
            "C05/encode-layout",
            format!("serialize gave {:?}, documented layout gives {:#018x}", other.as_ref().map(|x| format!("{:#018x}", x)), want),
            tuple_case(t),
        )),
    }
    // decode the documented id
    match subj::deserialize(want) {
        Ok(c) => {
            let same = if t.res == -1 {
                c.resolution == -1
            } else if t.res == 0 {
                c.origin_id as u64 == t.face && c.resolution == 0 && c.s == 0
            } else {
                c.origin_id as u64 == t.face && c.segment as u64 == t.quintant && c.s == t.s && c.resolution == t.res
            };
            if !same {
                out.push(viol("C05/decode", format!("deserialize({:#018x}) = {:?}", want, c), tuple_case(t)));
            }
        }
        Err(e) => out.push(viol("C05/decode", format!("deserialize({:#018x}) failed: {}", want, e), tuple_case(t))),
    }
    match subj::resolution(want) {
        Ok(r) if r == t.res => {}
        other => out.push(viol("C05/resolution", format!("get_resolution({:#018x}) = {:?}, encoded {}", want, other, t.res), tuple_case(t))),
    }
    (got.ok(), out)
}

pub fn check_hex_u64(v: u64) -> Vec<Viol> {
    let mut out = Vec::new();
    let case = json!({"kind": "hex_u64", "value": format!("{:#018x}", v)});
    let s = match subj::guard_val(|| a5::u64_to_hex(v)) {
        Ok(s) => s,
        Err(e) => return vec![viol("C05/hex-format", e, case)],
    };
    let ok_form = !s.is_empty()
        && s.len() <= 16
        && s.bytes().all(|b| b.is_ascii_digit() || (b'a'..=b'f').contains(&b))
        && (s == "0" || !s.starts_with('0'));
    if !ok_form {
        out.push(viol("C05/hex-format", format!("u64_to_hex gave {:?}: not 1-16 lower-case digits without leading zeros", s), case.clone()));
    }
    // reference value of the string
    let refv = u128::from_str_radix(&s, 16).ok();
    if refv != Some(v as u128) {
        out.push(viol("C05/hex-format", format!("u64_to_hex gave {:?} whose value is {:?}", s, refv), case.clone()));
    }
    match subj::guard(|| a5::hex_to_u64(&s)) {
        Ok(b) if b == v => {}
        other => out.push(viol("C05/hex-roundtrip", format!("hex_to_u64(u64_to_hex(v)) = {:?}", other), case)),
    }
    out
}

/// semantics the property fixes for parsing: never panics; "" -> Err; a pure hex-digit string wider
/// than 64 bits -> Err; a pure hex-digit string that is accepted yields its mathematical value.
pub fn check_hex_str(s: &str) -> (bool, Vec<Viol>) {
    let case = json!({"kind": "hex_str", "s": s});
    let r = subj::guard(|| a5::hex_to_u64(s));
    let mut out = Vec::new();
    if let Err(e) = &r {
        if e.starts_with("PANIC") {
            out.push(viol("C05/hex-parse-panic", e.clone(), case.clone()));
            return (true, out);
        }
    }
    let pure = !s.is_empty() && s.bytes().all(|b| b.is_ascii_hexdigit());
    let mut decided = false;
    if s.is_empty() {
        decided = true;
        if r.is_ok() {
            out.push(viol("C05/hex-parse-empty", format!("empty string parsed to {:?}", r), case.clone()));
        }
    } else if pure {
        decided = true;
        // mathematical value (strings here are at most 40 digits; fold with overflow detection)
        let mut val: Option<u128> = Some(0);
        for b in s.bytes() {
            let d = (b as char).to_digit(16).unwrap() as u128;
            val = val.and_then(|x| x.checked_mul(16)).and_then(|x| x.checked_add(d));
            if let Some(x) = val {
                if x > u64::MAX as u128 {
                    val = None;
                }
            }
        }
        match (val, &r) {
            (None, Ok(v)) => out.push(viol("C05/hex-parse-truncates", format!("wider than 64 bits but parsed to {:#x}", v), case.clone())),
            (Some(x), Ok(v)) if *v as u128 != x => out.push(viol("C05/hex-parse-value", format!("parsed to {:#x}, value is {:#x}", v, x), case.clone())),
            _ => {}
        }
    } else {
        // not a digit string: if it is accepted at all, the value must be the value of a digit string the
        // caller can recognise in it - the string itself after one optional leading '+' (what the pinned
        // release accepts). Anything else (a character read as a digit through a truncated code point, a
        // sign or separator swallowed in the middle) returns a number the string does not spell: two
        // different strings that are not both numbers denote one id.
        if let Ok(v) = &r {
            decided = true;
            let body = s.strip_prefix('+').unwrap_or(s);
            let spelled = !body.is_empty() && body.bytes().all(|b| b.is_ascii_hexdigit()) && u128::from_str_radix(body, 16).map(|x| x == *v as u128).unwrap_or(false);
            if !spelled {
                out.push(viol("C05/hex-parse-non-hex", format!("{:?} is not a string of hex digits but parsed to {:#x}", s, v), case.clone()));
            }
        }
    }
    (decided, out)
}

fn deep_positions(bits: u32) -> Vec<u64> {
    // bits = 2*(r-1) curve bits
    let max = if bits >= 64 { u64::MAX } else { (1u64 << bits) - 1 };
    let mut v = vec![0, 1, 2, 3, max, max - 1, max / 3, (max / 3) * 2, max / 5, max / 15 * 11];
    for k in 0..bits {
        v.push(1u64 << k);
        v.push((1u64 << (k + 1)) - 1);
        v.push(max ^ (1u64 << k));
    }
    // xorshift values (deterministic, part of the fixed alphabet)
    let mut x: u64 = 0x9E3779B97F4A7C15 ^ bits as u64;
    for _ in 0..40 {
        x ^= x << 13;
        x ^= x >> 7;
        x ^= x << 17;
        v.push(x & max);
    }
    v.retain(|&s| s <= max);
    v.sort_unstable();
    v.dedup();
    v
}

/// one bit pattern (a single-bit neighbour of the valid id `near`): what the API returns for it must be
/// canonical, and if it decodes, re-encoding must give the same bits
pub fn check_bits(x: u64, near: u64) -> Vec<Viol> {
    let id = near;
    let mut out = Vec::new();
    // the valid neighbourhood of the pattern is used first (its siblings are produced, it is decoded and
    // expanded): whatever those calls remember must not make the pattern itself acceptable
    if rc::is_canonical(near) {
        if let Some(p) = rc::parent(near) {
            let _ = subj::children(p, None);
        }
        let _ = subj::deserialize(near);
        let _ = subj::children(near, None);
        let _ = subj::uncompact(&[near], (rc::resolution(near).unwrap_or(0) + 1).min(29));
    }
    if !rc::is_canonical(x) {
        // "every ID returned by any API call is in this canonical form": hierarchy calls on a
        // bit pattern that is not a cell, with every natural target (the resolution the
        // library itself reads from the bits, one coarser, one finer, none)
        let g = subj::resolution(x).unwrap_or(0);
        let mut returned: Vec<(String, u64)> = Vec::new();
        for t in [None, Some(g), Some(g - 1), Some(g + 1)] {
            if let Ok(p) = subj::parent(x, t) {
                returned.push((format!("cell_to_parent(.., {:?})", t), p));
            }
            if t.map(|t| t <= g + 1).unwrap_or(true) {
                if let Ok(ch) = subj::children(x, t) {
                    returned.extend(ch.into_iter().map(|c| (format!("cell_to_children(.., {:?})", t), c)));
                }
            }
        }
        if let Ok(v) = subj::compact(&[x]) {
            returned.extend(v.into_iter().map(|c| ("compact".to_string(), c)));
        }
        if let Ok(v) = subj::uncompact(&[x], g.clamp(-1, 29)) {
            returned.extend(v.into_iter().map(|c| ("uncompact(.., its own resolution)".to_string(), c)));
        }
        if let Some((f, bad)) = returned.iter().find(|(_, c)| !rc::is_canonical(*c)) {
            out.push(viol(
                "C05/api-noncanonical",
                format!("{} on the bit pattern {:#018x} (not a cell; reads as resolution {}) returned {:#018x}, which is not a canonical id", f, x, g, bad),
                json!({"kind": "bits", "id": subj::hex(x)}),
            ));
        }
    }
    if let Ok(cell) = subj::deserialize(x) {
        match subj::serialize(&cell) {
            Ok(y) if y == x => {}
            other => out.push(viol(
                "C05/decode-not-injective",
                format!("deserialize accepts {:#018x} (one bit away from the valid id {:#018x}) as {:?}, which encodes to {:?}: two ids denote one cell", x, id, cell, other.map(|y| format!("{:#018x}", y))),
                json!({"kind": "bits", "id": subj::hex(x)}),
            )),
        }
    }
    out
}

pub fn run(tier: &str) -> Report {
    let mut rep = Report::new("model_checking");
    let rmax = if tier == "quick" { 9 } else { 10 };
    let agreed = AtomicU64::new(0);
    let evals = AtomicU64::new(0);
    // ---- exhaustive tuples r = -1..rmax
    let mut all_ids: Vec<u64> = Vec::new();
    {
        let (_, v) = check_tuple(rc::Tuple { face: 0, quintant: 0, s: 0, res: -1 });
        rep.sink.extend(v);
    }
    for r in 0..=rmax {
        let nq = if r == 0 { 1 } else { 5 };
        let ns: u64 = if r < 2 { 1 } else { 1u64 << (2 * (r - 1)) };
        let combos: Vec<(u64, u64)> = (0..12u64).flat_map(|f| (0..nq as u64).map(move |q| (f, q))).collect();
        let ids: Vec<Vec<u64>> = combos
            .par_iter()
            .map(|&(f, q)| {
                let mut ids = Vec::with_capacity(ns as usize);
                for s in 0..ns {
                    let t = rc::Tuple { face: f, quintant: q, s, res: r };
                    let (id, v) = check_tuple(t);
                    evals.fetch_add(1, Ordering::Relaxed);
                    if v.is_empty() {
                        agreed.fetch_add(1, Ordering::Relaxed);
                    } else {
                        rep.sink.extend(v);
                    }
                    if let Some(id) = id {
                        ids.push(id);
                    }
                }
                ids
            })
            .collect();
        for v in ids {
            all_ids.extend(v);
        }
    }
    // ---- deep structured positions r = rmax+1..29
    let mut deep = 0u64;
    for r in (rmax + 1)..=29 {
        let bits = 2 * (r - 1) as u32;
        let pos = deep_positions(bits);
        for f in 0..12u64 {
            for q in 0..5u64 {
                for &s in &pos {
                    let t = rc::Tuple { face: f, quintant: q, s, res: r };
                    let (id, v) = check_tuple(t);
                    deep += 1;
                    if v.is_empty() {
                        agreed.fetch_add(1, Ordering::Relaxed);
                    } else {
                        rep.sink.extend(v);
                    }
                    if let Some(id) = id {
                        all_ids.push(id);
                    }
                }
            }
        }
    }
    // ---- injectivity: all produced ids pairwise distinct
    let produced = all_ids.len() as u64;
    all_ids.par_sort_unstable();
    let mut dups = 0u64;
    for w in all_ids.windows(2) {
        if w[0] == w[1] {
            dups += 1;
            if dups <= 4 {
                rep.sink.push(viol("C05/injective", format!("id {:#018x} produced by two different tuples", w[0]), json!({"kind": "id", "id": subj::hex(w[0])})));
            }
        }
    }
    // ---- oversized s must be rejected (it would alias another cell's id)
    let mut oversize = 0u64;
    for r in 2..=29 {
        let bits = 2 * (r - 1) as u32;
        for f in [0u8, 5, 11] {
            let cell = A5Cell { origin_id: f, segment: 1, s: 1u64 << bits, resolution: r };
            oversize += 1;
            if let Ok(id) = subj::serialize(&cell) {
                rep.sink.push(viol(
                    "C05/oversize-accepted",
                    format!("serialize accepted s = 4^{} at r={} and produced {:#018x}, the id of a different cell", r - 1, r, id),
                    json!({"kind": "oversize", "face": f, "res": r}),
                ));
            }
        }
    }
    // ---- decoding is injective: a bit pattern one bit away from a valid id must be rejected, or be
    //      another valid id; if it is accepted, re-encoding what was decoded must give the same bits
    //      (otherwise two different ids denote one cell)
    let mut flips = 0u64;
    {
        let mut base: Vec<u64> = rc::all_cells(0);
        base.extend(rc::all_cells(1));
        base.extend(rc::all_cells(2));
        base.extend(rc::all_cells(3).into_iter().step_by(7));
        base.extend(crate::enumerate::fam(2, 29).into_iter().step_by(if tier == "quick" { 97 } else { 11 }));
        base.push(0);
        let fv: Vec<Viol> = base
            .par_iter()
            .flat_map(|&id| {
                let mut out = Vec::new();
                for k in 0..64 {
                    out.extend(check_bits(id ^ (1u64 << k), id));
                }
                out
            })
            .collect();
        flips += 64 * base.len() as u64;
        rep.sink.extend(fv);
    }
    // ---- ids returned by API calls are canonical (lookups, children, parents on a small lattice)
    let mut api_ids = 0u64;
    for (lon, lat, _) in crate::enumerate::sphere_lonlat(64, false).into_iter().step_by(7) {
        for r in 0..=29 {
            if let Ok(id) = subj::lookup(lon, lat, r) {
                api_ids += 1;
                if !rc::is_canonical(id) || rc::resolution(id) != Some(r) {
                    rep.sink.push(viol("C05/api-noncanonical", format!("lonlat_to_cell returned {:#018x}", id), json!({"kind": "lookup", "lon": lon, "lat": lat, "res": r})));
                }
                if let Ok(p) = subj::parent(id, None) {
                    api_ids += 1;
                    if !rc::is_canonical(p) {
                        rep.sink.push(viol("C05/api-noncanonical", format!("cell_to_parent({:#018x}) returned {:#018x}", id, p), json!({"kind": "id", "id": subj::hex(id)})));
                    }
                }
                if r < 29 {
                    if let Ok(ch) = subj::children(id, None) {
                        for c in ch {
                            api_ids += 1;
                            if !rc::is_canonical(c) {
                                rep.sink.push(viol("C05/api-noncanonical", format!("cell_to_children({:#018x}) returned {:#018x}", id, c), json!({"kind": "id", "id": subj::hex(id)})));
                            }
                        }
                    }
                }
            }
        }
    }
    // ---- hex: format -> parse on structured values and on every valid id produced above (strided)
    let mut hexvals: Vec<u64> = vec![0, 1, u64::MAX, u64::MAX - 1, 1 << 63, 0x8000_0000_0000_0001];
    for k in 0..64 {
        hexvals.push(1u64 << k);
        hexvals.push((1u64 << k).wrapping_sub(1));
        hexvals.push(u64::MAX << k);
    }
    for b in 0..=255u64 {
        hexvals.push(b * 0x0101_0101_0101_0101);
        hexvals.push(b << 56);
        hexvals.push(b);
    }
    let stride = if tier == "quick" { 37 } else { 1 };
    hexvals.extend(all_ids.iter().step_by(stride).copied());
    hexvals.sort_unstable();
    hexvals.dedup();
    let hexn = hexvals.len() as u64;
    let hv: Vec<Viol> = hexvals.par_iter().flat_map(|&v| check_hex_u64(v)).collect();
    rep.sink.extend(hv);
    // ---- hex: parse all strings of length <= 3 over a 24-symbol alphabet + boundary strings
    let alphabet: Vec<&str> = vec!["0", "1", "9", "a", "f", "A", "F", "g", "G", "x", "+", "-", " ", "\0", "é", "٣", "z", "_", ".", "８", "\n", "e", "7", "ｆ"];
    let mut strings: Vec<String> = vec![String::new()];
    let mut layer: Vec<String> = vec![String::new()];
    for _ in 0..3 {
        let mut next = Vec::new();
        for s in &layer {
            for a in &alphabet {
                next.push(format!("{}{}", s, a));
            }
        }
        strings.extend(next.iter().cloned());
        layer = next;
    }
    for len in [15usize, 16, 17, 18, 32, 33, 40] {
        strings.push("f".repeat(len));
        strings.push(format!("1{}", "0".repeat(len - 1)));
        strings.push(format!("{}1", "0".repeat(len - 1)));
        strings.push(format!("0{}", "f".repeat(len - 1)));
        strings.push(format!("{}g", "f".repeat(len - 1)));
    }
    // over-wide strings built from real values: a 16-digit value with one more digit in front or behind
    for (i, &v) in hexvals.iter().enumerate() {
        if i % (if tier == "quick" { 23 } else { 3 }) != 0 {
            continue;
        }
        let s16 = format!("{:016x}", v);
        for d in ["1", "2", "7", "8", "e", "f"] {
            strings.push(format!("{}{}", d, s16));
            if !s16.starts_with('0') {
                strings.push(format!("{}{}", s16, d));
            }
            strings.push(format!("{}0{}", d, s16));
        }
    }
    // long strings with one non-ASCII character at every byte position (parsing must return Err, not panic)
    for total in [20usize, 31, 32, 33, 34, 40, 64, 65] {
        for pos in 0..total {
            for ch in ["é", "٣", "€", "😀"] {
                strings.push(format!("{}{}{}", "f".repeat(pos), ch, "f".repeat(total - pos - 1)));
            }
        }
    }
    // characters above U+00FF whose low byte (or low byte of any UTF-16 / UTF-8 unit) is an ASCII hex digit,
    // alone, in front of, behind and between digits
    for hi in [0x01u32, 0x04, 0x06, 0x20, 0x30, 0xff, 0x1f6, 0x100] {
        for lo in (0x30u32..=0x39).chain(0x41..=0x46).chain(0x61..=0x66) {
            if let Some(ch) = char::from_u32((hi << 8) | lo) {
                strings.push(ch.to_string());
                strings.push(format!("{}{}", ch, ch));
                strings.push(format!("1{}", ch));
                strings.push(format!("{}f", ch));
                strings.push(format!("eb6{}0000", ch));
            }
        }
    }
    // a sign, a blank or a separator at every position of digit strings of every length up to 20
    for len in 1usize..=20 {
        for pos in 0..=len {
            for sep in ["+", "-", " ", "_", ".", ",", "x", "\u{0}"] {
                let mut t = "f1".repeat(len);
                t.truncate(len);
                t.insert_str(pos, sep);
                strings.push(t);
            }
        }
    }
    // very long digit strings with long zero windows (an accumulator wider than 64 bits that wraps,
    // a value behind a zero-padded field)
    for len in 17usize..=80 {
        strings.push(format!("1{}", "0".repeat(len - 1)));
        strings.push(format!("1{}1", "0".repeat(len - 2)));
        strings.push(format!("f{}b400000002800000", "0".repeat(len - 1)));
        strings.push(format!("deadbeef{}", "0".repeat(len)));
        strings.push("0".repeat(len));
        strings.push(format!("{}7", "0".repeat(len)));
    }
    for len in [96usize, 128, 129, 160, 256, 257, 1024] {
        strings.push(format!("1{}", "0".repeat(len - 1)));
        strings.push(format!("8{}3", "0".repeat(len - 2)));
        strings.push("f".repeat(len));
    }
    strings.push("ffffffffffffffff".into());
    strings.push("10000000000000000".into());
    strings.push("0x10".into());
    let mut decided = 0u64;
    for s in &strings {
        let (d, v) = check_hex_str(s);
        if d {
            decided += 1;
        }
        rep.sink.extend(v);
    }

    let ev = evals.load(Ordering::Relaxed);
    let states = ev + deep + 1;
    rep.set("states", json!(states));
    rep.set("transitions", json!(3 * states + hexn * 2 + strings.len() as u64));
    rep.set("traces_validated_against_impl", json!(agreed.load(Ordering::Relaxed)));
    rep.set("evaluations", json!(states + hexn + strings.len() as u64 + oversize + api_ids));
    rep.set("distinct_nontrivial", json!(produced - dups));
    rep.set("rule", json!(format!(
        "every (face,quintant,s,res) tuple for res -1..{} ({} tuples) plus {} structured deep tuples res {}..29, each: real serialize == documented layout, real deserialize/get_resolution of the documented id == tuple; injectivity by sorting all {} produced ids; {} hex values format->parse; {} strings parsed ({} with a verdict); distinct_nontrivial = number of pairwise distinct ids produced",
        rmax, ev + 1, deep, rmax + 1, produced, hexn, strings.len(), decided)));
    rep.set("exhaustive", json!(true));
    rep.set("exhaustive_scope", json!(format!("all tuples with res <= {}; all strings of length <= 3 over a 24-symbol alphabet", rmax)));
    rep.set("api_ids_checked_canonical", json!(api_ids));
    rep.set("duplicate_ids", json!(dups));
    rep.set("single_bit_neighbours_decoded", json!(flips));
    rep.sample(json!({"tuple": {"face": 7, "quintant": 3, "s": 5, "res": 4}, "documented_id": format!("{:#018x}", rc::encode(rc::Tuple{face:7,quintant:3,s:5,res:4}).unwrap())}));
    rep.sample(json!({"hex_string": "10000000000000000", "expect": "Err (wider than 64 bits)"}));
    rep.sample(json!({"hex_value": "0xffffffffffffffff"}));
    rep.assume("the documented layout as restated in properties.jsonl C05, with the per-face first-quintant table frozen in the reference codec");
    rep.assume("tuples with res > R are covered on structured positions only (boundaries, single bits, bit patterns, fixed xorshift values)");
    rep
}

pub fn replay(case: &Value) -> Vec<Viol> {
    match case["kind"].as_str().unwrap_or("") {
        "tuple" => {
            let t = rc::Tuple {
                face: case["face"].as_u64().unwrap(),
                quintant: case["quintant"].as_u64().unwrap(),
                s: case["s"].as_u64().unwrap(),
                res: case["res"].as_i64().unwrap() as i32,
            };
            check_tuple(t).1
        }
        "bits" => {
            let x = u64::from_str_radix(case["id"].as_str().unwrap(), 16).unwrap();
            check_bits(x, x)
        }
        "hex_u64" => {
            let s = case["value"].as_str().unwrap().trim_start_matches("0x");
            check_hex_u64(u64::from_str_radix(s, 16).unwrap())
        }
        "hex_str" => check_hex_str(case["s"].as_str().unwrap()).1,
        _ => vec![],
    }
}
