//! C01 (lookup returns a containing cell of the requested resolution) and C02 (centre and interior
//! points map back to the cell).
use crate::enumerate as en;
use crate::ev::{viol, Report, Viol};
use crate::geo;
use crate::refcodec as rc;
use crate::refgeom as rg;
use crate::refgeom::V3;
use crate::subj;
use rayon::prelude::*;
use serde_json::{json, Value};
use std::collections::BTreeMap;
use std::sync::atomic::{AtomicU64, Ordering};
use std::sync::Mutex;

pub const BAND: f64 = 4e-12;

fn llcase(lon: f64, lat: f64, res: i32) -> Value {
    json!({"kind": "lookup", "lon": lon, "lat": lat, "res": res})
}

pub struct Stats {
    pub branches: Mutex<BTreeMap<i32, u64>>,
    pub near_edge: AtomicU64,
    pub evals: AtomicU64,
    pub sph_checked: AtomicU64,
    pub min_margin: Mutex<f64>,
}
impl Stats {
    pub fn new() -> Self {
        Stats { branches: Mutex::new(BTreeMap::new()), near_edge: AtomicU64::new(0), evals: AtomicU64::new(0), sph_checked: AtomicU64::new(0), min_margin: Mutex::new(f64::INFINITY) }
    }
}

/// does cell `id` contain the physical point (lon, lat) within the band? (planar oracle, deciding)
/// returns the signed planar distance
fn contains(id: u64, lon: f64, lat: f64) -> Result<f64, String> {
    geo::planar_signed_dist(id, rg::ll_to_vec(lon, lat))
}

/// independent spherical oracle through the public boundary call only (r <= 12)
fn sph_contains(id: u64, lon: f64, lat: f64) -> Result<(bool, f64), String> {
    let r = rc::resolution(id).unwrap();
    let v = rg::ll_to_vec(lon, lat);
    let size = geo::cell_size(r);
    // coarse ring first: a point well inside it needs no finer ring
    let coarse = geo::ring_vectors(id, 8)?;
    if rg::winding(&coarse, v).map(|w| w == 1).unwrap_or(false) {
        let d = rg::dist_to_ring(&coarse, v);
        if d > 0.05 * size {
            return Ok((true, d));
        }
    }
    let ring = geo::ring_vectors(id, 64)?;
    let d = rg::dist_to_ring(&ring, v);
    let inside = rg::winding(&ring, v).map(|w| w == 1).unwrap_or(false);
    Ok((inside || d <= 1e-3 * size + 1e-9, if inside { d } else { -d }))
}

pub fn check_lookup(lon: f64, lat: f64, res: i32, st: &Stats, equivalence: bool) -> Vec<Viol> {
    let mut out = Vec::new();
    st.evals.fetch_add(1, Ordering::Relaxed);
    let case = llcase(lon, lat, res);
    let (r, branch) = subj::lookup_branch(lon, lat, res);
    *st.branches.lock().unwrap().entry(branch).or_insert(0) += 1;
    let id = match r {
        Ok(id) => id,
        Err(e) => return vec![viol("C01/lookup-fails", format!("lonlat_to_cell({}, {}, {}) failed: {}", lon, lat, res, e), case)],
    };
    match rc::decode(id) {
        Some(t) if t.res == res && rc::encode(t) == Some(id) => {}
        _ => return vec![viol("C01/resolution", format!("returned {} which is not a canonical id of resolution {}", subj::hex(id), res), case)],
    }
    match contains(id, lon, lat) {
        Ok(d) => {
            if d.abs() < 1e-6 * geo::cell_size(res) {
                st.near_edge.fetch_add(1, Ordering::Relaxed);
            }
            if !(d >= -BAND) {
                let cls = if branch == 1000 { "C01/contains-fallback" } else { "C01/contains" };
                out.push(viol(cls, format!("returned cell {} does not contain the point: signed planar distance {:.3e} (answered by {})", subj::hex(id), d, branch_name(branch)), case.clone()));
            }
        }
        Err(e) => out.push(viol("C01/oracle-error", format!("cannot evaluate containment for {}: {}", subj::hex(id), e), case.clone())),
    }
    if res <= 12 && out.is_empty() {
        st.sph_checked.fetch_add(1, Ordering::Relaxed);
        match sph_contains(id, lon, lat) {
            Ok((true, _)) => {}
            Ok((false, d)) => out.push(viol("C01/contains-boundary", format!("the point is {:.3e} rad outside the reported boundary ring of the returned cell {}", -d, subj::hex(id)), case.clone())),
            Err(e) => out.push(viol("C01/oracle-error", e, case.clone())),
        }
    }
    if equivalence {
        for dl in [360.0, -360.0, 720.0, -720.0] {
            match subj::lookup(lon + dl, lat, res) {
                Ok(id2) => {
                    let ok = id2 == id || (rc::resolution(id2) == Some(res) && contains(id2, lon, lat).map(|d| d >= -BAND).unwrap_or(false));
                    if !ok {
                        out.push(viol("C01/lon-periodic", format!("longitude {} + {} gives {} which does not contain the same physical point (base answer {})", lon, dl, subj::hex(id2), subj::hex(id)), case.clone()));
                    }
                }
                Err(e) => out.push(viol("C01/lookup-fails", format!("longitude {} + {}: {}", lon, dl, e), case.clone())),
            }
        }
        if lat.abs() == 90.0 {
            for lo in [0.0, 45.0, -93.0, 179.0, -180.0, 1234.5] {
                match subj::lookup(lo, lat, res) {
                    Ok(id2) => {
                        let ok = rc::resolution(id2) == Some(res) && contains(id2, lon, lat).map(|d| d >= -BAND).unwrap_or(false);
                        if !ok {
                            out.push(viol("C01/pole-longitude", format!("pole with longitude {} gives {} which does not contain the pole", lo, subj::hex(id2)), case.clone()));
                        }
                    }
                    Err(e) => out.push(viol("C01/lookup-fails", e, case.clone())),
                }
            }
        }
    }
    out
}

fn branch_name(b: i32) -> String {
    match b {
        0 => "the exact low-resolution path".into(),
        1000 => "the nearest-edge fallback".into(),
        k if k > 0 => format!("estimate #{} of the probe spiral", k),
        _ => "unknown branch".into(),
    }
}

pub fn run_c01(tier: &str) -> Report {
    let mut rep = Report::new("exploration");
    let st = Stats::new();
    let pts = en::sphere_lonlat(if tier == "quick" { 2048 } else { 65536 }, tier != "quick");
    let npts = pts.len();
    let work: Vec<(f64, f64, i32, bool)> = pts
        .iter()
        .enumerate()
        .flat_map(|(i, &(lon, lat, tag))| (0..=29).map(move |r| (lon, lat, r, tag != "uniform" && (i % 5 == 0 || lat.abs() == 90.0))))
        .collect();
    let vs: Vec<Viol> = work.par_iter().flat_map(|&(lon, lat, r, eq)| check_lookup(lon, lat, r, &st, eq)).collect();
    rep.sink.extend(vs);
    // boundary-hugging points of every cell (looked up at the cell's resolution)
    let rmax = if tier == "quick" { 3 } else { 6 };
    let mut cells = en::all_upto(rmax);
    let fam: Vec<u64> = en::fam(2, 29).into_iter().filter(|&c| rc::resolution(c).unwrap() > rmax).collect();
    cells.extend(fam.into_iter().step_by(if tier == "quick" { 12 } else { 2 }));
    let hug = AtomicU64::new(0);
    let vs: Vec<Viol> = cells
        .par_iter()
        .flat_map(|&c| {
            let mut out = Vec::new();
            let res = rc::resolution(c).unwrap();
            let (face, poly) = match geo::cell_poly(c) {
                Ok(x) => x,
                Err(_) => return out,
            };
            for q in geo::cell_interior_points(&poly, &[1.0, 1.0 - 1e-9, 1.0 + 1e-9, 1.0 - 1e-6, 1.0 + 1e-6]).into_iter().skip(1) {
                if let Ok(v) = subj::inverse(q, face) {
                    let (lon, lat) = rg::vec_to_ll(v);
                    hug.fetch_add(1, Ordering::Relaxed);
                    out.extend(check_lookup(lon, lat, res, &st, false));
                }
            }
            out
        })
        .collect();
    rep.sink.extend(vs);
    // vertices and edge midpoints of coarse cells, looked up at every finer resolution (each is on
    // a cell boundary at every finer level too: the lookup has to fall back or pick a touching cell)
    let rv = if tier == "quick" { 2 } else { 4 };
    let coarse = en::all_upto(rv);
    let vs: Vec<Viol> = coarse
        .par_iter()
        .flat_map(|&c| {
            let mut out = Vec::new();
            let res = rc::resolution(c).unwrap();
            let (face, poly) = match geo::cell_poly(c) {
                Ok(x) => x,
                Err(_) => return out,
            };
            for q in geo::cell_interior_points(&poly, &[1.0]).into_iter().skip(1) {
                if let Ok(v) = subj::inverse(q, face) {
                    let (lon, lat) = rg::vec_to_ll(v);
                    for r in (res + 1)..=29 {
                        hug.fetch_add(1, Ordering::Relaxed);
                        out.extend(check_lookup(lon, lat, r, &st, false));
                    }
                }
            }
            out
        })
        .collect();
    rep.sink.extend(vs);
    let br = st.branches.lock().unwrap().clone();
    let hard: u64 = br.iter().filter(|(k, _)| **k > 1).map(|(_, v)| *v).sum();
    // dense scan: a Fibonacci lattice of 8 M (quick) / 120 M (thorough) points, point i looked up at
    // resolution 2 + (i mod 28), judged by planar containment only (the light half of the oracle). Lookups
    // that only succeed through a late probe of the spiral occur for about one point in a few million, at
    // no particular place; only a lattice of this density meets them.
    {
        let n: u64 = if tier == "quick" { 8_000_000 } else { 120_000_000 };
        let golden = (1.0 + 5f64.sqrt()) / 2.0;
        let chunk = 1u64 << 16;
        let starts: Vec<u64> = (0..n).step_by(chunk as usize).collect();
        let bad = AtomicU64::new(0);
        let vs: Vec<Viol> = starts
            .par_iter()
            .flat_map(|&c0| {
                let mut out = Vec::new();
                for i in c0..(c0 + chunk).min(n) {
                    let z = 1.0 - (2.0 * i as f64 + 1.0) / n as f64;
                    let lon = ((i as f64 / golden).fract() * 360.0) - 180.0;
                    let lat = z.asin() / rg::DEG;
                    let res = 2 + (i % 28) as i32;
                    let ok = match subj::lookup(lon, lat, res) {
                        Ok(id) => rc::resolution(id) == Some(res) && contains(id, lon, lat).map(|d| d >= -BAND).unwrap_or(false),
                        Err(_) => false,
                    };
                    if !ok && bad.fetch_add(1, Ordering::Relaxed) < 4 {
                        // full oracle for the report
                        let v = check_lookup(lon, lat, res, &st, false);
                        if v.is_empty() {
                            out.push(viol("C01/oracle-error", "the light and the full oracle disagree".into(), llcase(lon, lat, res)));
                        }
                        out.extend(v);
                    }
                }
                out
            })
            .collect();
        rep.sink.extend(vs);
        rep.set("dense_scan_points", json!(n));
        st.evals.fetch_add(n, Ordering::Relaxed);
    }
    // call ladders: a lookup repeated after exactly g - 1 identical lookups of a far-away point on one
    // fresh thread, g around 2^8, 2^10, 2^12, 2^16 (a per-thread lookup counter that wraps, stale slots)
    {
        let jobs: Vec<(f64, f64, i32)> = vec![(12.3, 45.6, 12), (-71.9, -12.25, 6), (151.2, -33.9, 20)];
        let vs: Vec<Viol> = jobs
            .par_iter()
            .flat_map(|&(lon, lat, r)| {
                std::thread::scope(|sc| {
                    sc.spawn(|| {
                        let st2 = Stats::new();
                        let mut out = check_lookup(lon, lat, r, &st2, false);
                        // the centre of the cell found, and a point well inside a neighbour
                        let targets: Vec<(f64, f64)> = match subj::lookup(lon, lat, r).and_then(subj::centre) {
                            Ok(c) => vec![c, (lon, lat)],
                            Err(_) => vec![(lon, lat)],
                        };
                        for g in [255u64, 256, 257, 1023, 1024, 1025, 4096, 65535, 65536, 65537] {
                            for _ in 1..g {
                                let _ = subj::lookup(-120.0, -40.0, r);
                            }
                            let t = targets[(g % targets.len() as u64) as usize];
                            let v = check_lookup(t.0, t.1, r, &st2, false);
                            if !v.is_empty() {
                                out.extend(v.into_iter().map(|mut x| {
                                    x.what = format!("{} [lookup made after exactly {} identical lookups of (-120, -40) on the same thread]", x.what, g - 1);
                                    x.case["after_fillers"] = json!(g - 1);
                                    x
                                }));
                                break;
                            }
                        }
                        out
                    })
                    .join()
                    .unwrap()
                })
            })
            .collect();
        rep.sink.extend(vs);
        rep.set("call_ladder_lookups", json!(3 * 201_000));
    }
    rep.set("evaluations", json!(st.evals.load(Ordering::Relaxed)));
    rep.set("distinct_nontrivial", json!(hard));
    rep.set("rule", json!(format!("sphere lattice of {} points (Fibonacci + frame vertices/edges/seams with offsets + polar caps + antimeridian) x every resolution 0..29, plus {} edge/vertex-hugging points of all cells r<={} and of family cells to r=29; oracle: canonical id of exactly the requested resolution, signed planar distance to the returned cell >= -4e-12 (real forward projection + reference perpendicular distance), and for r<=12 containment in the reported boundary ring (independent spherical test); lon+-360k and pole-longitude equivalence on every 5th special point; distinct_nontrivial = lookups NOT answered by the first estimate (hook H1)", npts, hug.load(Ordering::Relaxed), rmax)));
    rep.set("exhaustive", json!(true));
    rep.set("exhaustive_scope", json!("every lattice point x all 30 resolutions (the sphere is a continuum and is not covered between lattice points)"));
    rep.set("lookup_branch_histogram", json!(br.iter().map(|(k, v)| (branch_name(*k), *v)).collect::<BTreeMap<_, _>>()));
    rep.set("lookups_within_1e-6_cell_sizes_of_an_edge", json!(st.near_edge.load(Ordering::Relaxed)));
    rep.set("spherical_oracle_evaluations", json!(st.sph_checked.load(Ordering::Relaxed)));
    rep.sample(json!({"lon": pts[npts / 2].0, "lat": pts[npts / 2].1, "tag": pts[npts / 2].2, "res": "0..29"}));
    rep.assume("verdict holds on the lattice only");
    rep.assume("band: 4e-12 in face-plane units (the property's 'about 1e-12 rad' times the local scale of the projection)");
    rep
}

// ---------------------------------------------------------------------------------------- C02

/// fractions of the way from the centroid to a vertex / edge midpoint: a geometric ladder of
/// distances from the boundary (1e-4 .. 0.5), so that any band wider than a factor ~1.5 is hit
pub fn interior_fractions(dense: bool) -> Vec<f64> {
    let mut f = vec![0.5, 0.9, 0.99, 0.999, 0.9999];
    if dense {
        for d in [0.7, 0.4, 0.3, 0.2, 0.15, 0.07, 0.05, 0.04, 0.03, 0.02, 0.015, 0.007, 0.005, 0.003, 0.002, 0.0015, 0.0007, 0.0005, 0.0003, 0.0002] {
            f.push(1.0 - d);
        }
    } else {
        for d in [0.3, 0.05, 0.03, 0.005] {
            f.push(1.0 - d);
        }
    }
    f
}

pub fn check_cell_c02(c: u64, interior: bool, st: &Stats, strict_pts: &AtomicU64) -> Vec<Viol> {
    check_cell_c02_f(c, interior, st, strict_pts, false)
}
pub fn check_cell_c02_f(c: u64, interior: bool, st: &Stats, strict_pts: &AtomicU64, dense: bool) -> Vec<Viol> {
    let mut out = Vec::new();
    let res = rc::resolution(c).unwrap();
    st.evals.fetch_add(1, Ordering::Relaxed);
    match subj::centre(c) {
        Ok((lon, lat)) => {
            let (r, branch) = subj::lookup_branch(lon, lat, res);
            *st.branches.lock().unwrap().entry(branch).or_insert(0) += 1;
            match r {
                Ok(id) if id == c => {}
                other => out.push(viol("C02/centre", format!("centre ({}, {}) of {} looks up to {:?}", lon, lat, subj::hex(c), other.map(subj::hex)), json!({"kind": "cell", "id": subj::hex(c)}))),
            }
        }
        Err(e) => out.push(viol("C02/centre-error", e, json!({"kind": "cell", "id": subj::hex(c)}))),
    }
    if !interior {
        return out;
    }
    let (face, poly) = match geo::cell_poly(c) {
        Ok(x) => x,
        Err(e) => return vec![viol("C02/pentagon-error", e, json!({"kind": "cell", "id": subj::hex(c)}))],
    };
    let diam = rg::diameter(&poly);
    for q in geo::cell_interior_points(&poly, &interior_fractions(dense)) {
        let v = match subj::inverse(q, face) {
            Ok(v) => v,
            Err(_) => continue,
        };
        let (lon, lat) = rg::vec_to_ll(v);
        // classify by what is actually passed to the API
        let d = match subj::forward(rg::ll_to_vec(lon, lat), face) {
            Ok(p) => rg::signed_dist_convex(&poly, p),
            Err(_) => continue,
        };
        if d < 1e-9 * diam + BAND {
            continue; // not strictly interior after the round trip: no verdict here (C01 covers it)
        }
        strict_pts.fetch_add(1, Ordering::Relaxed);
        let (r, branch) = subj::lookup_branch(lon, lat, res);
        *st.branches.lock().unwrap().entry(branch).or_insert(0) += 1;
        match r {
            Ok(id) if id == c => {}
            other => {
                let cls = if branch == 1000 { "C02/interior-fallback" } else { "C02/interior" };
                out.push(viol(cls, format!("point ({}, {}) lies {:.3e} inside {} but looks up to {:?} ({})", lon, lat, d, subj::hex(c), other.map(subj::hex), branch_name(branch)), json!({"kind": "interior", "id": subj::hex(c), "lon": lon, "lat": lat})));
            }
        }
    }
    out
}

/// strict-interior points of a cell as (lon, lat), classified through the real forward projection of
/// what is actually passed to the API
pub fn strict_interior_lonlat(c: u64, dense: bool) -> Vec<(f64, f64)> {
    let mut out = Vec::new();
    let (face, poly) = match geo::cell_poly(c) {
        Ok(x) => x,
        Err(_) => return out,
    };
    let diam = rg::diameter(&poly);
    for q in geo::cell_interior_points(&poly, &interior_fractions(dense)) {
        if let Ok(v) = subj::inverse(q, face) {
            let (lon, lat) = rg::vec_to_ll(v);
            if let Ok(p) = subj::forward(rg::ll_to_vec(lon, lat), face) {
                if rg::signed_dist_convex(&poly, p) >= 1e-9 * diam + BAND {
                    out.push((lon, lat));
                }
            }
        }
    }
    out
}

/// Neighbourhoods (+-1.5 cell sizes) at places spread over whole faces: the grid points that lie well inside
/// their cell (2 % of its diameter) and are not answered by their first estimate are looked up as ALL ordered
/// pairs (p1 then p2) on one fresh thread; p2 must map back to its cell whatever was looked up before.
pub fn cluster_pairs(tier: &str) -> (u64, u64, Vec<Viol>) {
    let quick = tier == "quick";
    let f = rg::frame();
    let all_res: Vec<i32> = if quick { vec![6, 12, 27] } else { vec![4, 6, 9, 12, 16, 20, 24, 27, 29] };
    let faces: &[usize] = if quick { &[3] } else { &[0, 3, 8, 11] };
    let fracs: &[f64] = if quick { &[0.1, 0.4, 0.95] } else { &[0.1, 0.3, 0.5, 0.7, 0.9, 0.97] };
    let mut jobs: Vec<(V3, i32, Option<V3>)> = Vec::new();
    let mut k = 0usize;
    for &face in faces {
        let c = f.centres[face];
        let targets: Vec<V3> = f.vertices.iter().chain(f.midpoints.iter()).copied().filter(|v| rg::ang(*v, c) < 0.7).collect();
        for t in &targets {
            for &fr in fracs {
                let p = rg::offset(rg::unit(rg::add(rg::scale(c, 1.0 - fr), rg::scale(*t, fr))), 0.013, 0.007);
                jobs.push((p, all_res[k % all_res.len()], None));
                k += 1;
            }
        }
    }
    // the 20 dodecahedron vertices (three faces meet) and points one cell beside them
    let vres: Vec<i32> = if quick { vec![8, 14, 22] } else { vec![5, 8, 11, 14, 17, 20, 22, 26, 29] };
    for (vi, v) in f.vertices.iter().enumerate() {
        if quick && vi % 2 == 1 {
            continue;
        }
        for (m, &r) in vres.iter().enumerate() {
            if quick && (vi / 2 + m) % 3 != 0 {
                continue;
            }
            let sz = geo::cell_size(r);
            jobs.push((rg::offset(*v, 0.21 * sz, -0.13 * sz), r, Some(*v)));
        }
    }
    let cap = if quick { 150 } else { 320 };
    let res: Vec<(u64, Vec<Viol>)> = jobs
        .par_iter()
        .map(|&(p, r, zoom)| {
            // a 30 x 30 grid over +-1.5 cell sizes. Phase 1: the cells all lookups of the grid return (plus
            // their numeric neighbours' parents' children) are the candidates. Phase 2: every grid point is
            // classified against ALL candidates with the planar test: the candidate that contains it by more
            // than 0.8 % of its diameter is THE cell of the point, whatever the lookup of that point said.
            // Phase 3: every such point must look up to its cell (a); those not answered by the first
            // estimate then run as all ordered pairs on one thread (b).
            let sz = geo::cell_size(r);
            let g = 30usize;
            let mut grid: Vec<(f64, f64, Option<u64>, i32)> = Vec::new();
            let mut polys: std::collections::HashMap<u64, (u8, Vec<rg::P2>)> = std::collections::HashMap::new();
            for i in 0..g {
                for j in 0..g {
                    let x = ((i as f64 + 0.29) / g as f64 - 0.5) * 3.0 * sz;
                    let y = ((j as f64 + 0.53) / g as f64 - 0.5) * 3.0 * sz;
                    let (lo, la) = rg::vec_to_ll(rg::offset(p, x, y));
                    let (res, branch) = subj::lookup_branch(lo, la, r);
                    let c = match res {
                        Ok(c) if rc::resolution(c) == Some(r) && rc::is_canonical(c) => Some(c),
                        _ => None,
                    };
                    if let Some(c) = c {
                        let mut fam = vec![c];
                        if let Some(pp) = rc::parent(c) {
                            fam.extend(rc::children(pp));
                        }
                        for x in fam {
                            polys.entry(x).or_insert_with(|| geo::cell_poly(x).unwrap_or((0, vec![])));
                        }
                    }
                    grid.push((lo, la, c, branch));
                }
            }
            // zoom ladder around a dodecahedron vertex: 60 x 60 grids over +-0.3, +-0.06 and +-0.012 cell sizes
            // centred on the vertex itself (spots much smaller than a cell where three faces meet)
            if let Some(vtx) = zoom {
                for half in [0.3, 0.06, 0.012] {
                    let gz = 60usize;
                    for i in 0..gz {
                        for j in 0..gz {
                            let x = ((i as f64 + 0.41) / gz as f64 - 0.5) * 2.0 * half * sz;
                            let y = ((j as f64 + 0.37) / gz as f64 - 0.5) * 2.0 * half * sz;
                            let (lo, la) = rg::vec_to_ll(rg::offset(vtx, x, y));
                            let (res, branch) = subj::lookup_branch(lo, la, r);
                            grid.push((lo, la, res.ok(), branch));
                        }
                    }
                }
            }
            // edge-hugging interior points of every candidate cell: 1.1 % and 3 % of the diameter inside each
            // edge at 25 positions along it (thin slivers of cells that reach across a seam or past a
            // dodecahedron vertex are only met there)
            {
                let mut extra: Vec<(f64, f64, Option<u64>, i32)> = Vec::new();
                for (_c, (face, poly)) in polys.iter() {
                    if poly.is_empty() {
                        continue;
                    }
                    let cen = rg::centroid_mean(poly);
                    let diam = rg::diameter(poly);
                    let n = poly.len();
                    for k in 0..n {
                        let (a, b) = (poly[k], poly[(k + 1) % n]);
                        for ti in 0..25 {
                            let t = 0.02 + 0.04 * ti as f64;
                            let e = [a[0] + t * (b[0] - a[0]), a[1] + t * (b[1] - a[1])];
                            let d = [cen[0] - e[0], cen[1] - e[1]];
                            let dl = (d[0] * d[0] + d[1] * d[1]).sqrt();
                            for depth in [0.011, 0.02] {
                                let q = [e[0] + d[0] / dl * depth * diam * 1.3, e[1] + d[1] / dl * depth * diam * 1.3];
                                if let Ok(v) = subj::inverse(q, *face) {
                                    let (lo, la) = rg::vec_to_ll(v);
                                    let (res, branch) = subj::lookup_branch(lo, la, r);
                                    extra.push((lo, la, res.ok(), branch));
                                }
                            }
                        }
                    }
                }
                grid.extend(extra);
            }
            let mut singles: Vec<Viol> = Vec::new();
            let mut pts: Vec<(f64, f64, u64)> = Vec::new();
            let mut classified = 0u64;
            for &(lo, la, got, branch) in &grid {
                let v = rg::ll_to_vec(lo, la);
                let mut owner: Option<u64> = None;
                for (&c, (face, poly)) in polys.iter() {
                    if poly.is_empty() {
                        continue;
                    }
                    if let Ok(q) = subj::forward(v, *face) {
                        if q[0] * q[0] + q[1] * q[1] < 1.2 && rg::signed_dist_convex(poly, q) >= 0.008 * rg::diameter(poly) {
                            owner = Some(c);
                            break;
                        }
                    }
                }
                if let Some(c) = owner {
                    classified += 1;
                    if got != Some(c) && singles.is_empty() {
                        singles.push(viol(
                            "C02/interior",
                            format!("point ({}, {}) lies more than 0.8 % of a cell diameter inside {} (planar test) but looks up to {:?} at resolution {} ({})", lo, la, subj::hex(c), got.map(subj::hex), r, branch_name(branch)),
                            json!({"kind": "interior", "id": subj::hex(c), "lon": lo, "lat": la, "res": r}),
                        ));
                    }
                    if branch != 1 {
                        pts.push((lo, la, c));
                    }
                }
            }
            if !singles.is_empty() {
                return (classified, singles);
            }
            // spread the selection over the whole cluster
            if pts.len() > cap {
                let step = pts.len() as f64 / cap as f64;
                pts = (0..cap).map(|i| pts[(i as f64 * step) as usize]).collect();
            }
            std::thread::scope(|sc| {
                sc.spawn(|| {
                    let mut out = Vec::new();
                    let mut n = 0u64;
                    for a in &pts {
                        for b in &pts {
                            let _ = subj::lookup(a.0, a.1, r);
                            n += 1;
                            match subj::lookup(b.0, b.1, r) {
                                Ok(id) if id == b.2 => {}
                                other => {
                                    out.push(viol(
                                        "C02/interior-after-neighbour",
                                        format!("point ({}, {}) lies strictly inside {} but looks up to {:?} right after the lookup of ({}, {}) on the same thread (resolution {})", b.0, b.1, subj::hex(b.2), other.map(subj::hex), a.0, a.1, r),
                                        json!({"kind": "interior_after", "id": subj::hex(b.2), "lon": b.0, "lat": b.1, "res": r, "prev_lon": a.0, "prev_lat": a.1}),
                                    ));
                                    return (n, out);
                                }
                            }
                        }
                    }
                    (n, out)
                })
                .join()
                .unwrap()
            })
        })
        .collect();
    let mut pairs = 0u64;
    let mut out = Vec::new();
    for (n, v) in res {
        pairs += n;
        out.extend(v);
    }
    (jobs.len() as u64, pairs, out)
}

pub fn run_c02(tier: &str) -> Report {
    let mut rep = Report::new("exploration");
    let st = Stats::new();
    let strict = AtomicU64::new(0);
    let (rc_max, ri_max) = if tier == "quick" { (6, 4) } else { (9, 7) };
    let mut ncentres = 0u64;
    for r in 0..=rc_max {
        let cells = rc::all_cells(r);
        ncentres += cells.len() as u64;
        let vs: Vec<Viol> = cells.par_iter().flat_map(|&c| check_cell_c02_f(c, r <= ri_max, &st, &strict, tier != "quick" && r <= 6)).collect();
        rep.sink.extend(vs);
    }
    let fam: Vec<u64> = en::fam(if tier == "quick" { 2 } else { 3 }, 29).into_iter().filter(|&c| rc::resolution(c).unwrap() > ri_max).collect();
    let fam: Vec<u64> = if tier == "quick" { fam.into_iter().step_by(5).collect() } else { fam };
    let vs: Vec<Viol> = fam.par_iter().flat_map(|&c| check_cell_c02_f(c, true, &st, &strict, tier != "quick")).collect();
    rep.sink.extend(vs);
    let special = super::cells::special_cells(if tier == "quick" { 20 } else { 8 }, 29, tier != "quick");
    let vs: Vec<Viol> = special.par_iter().flat_map(|&c| check_cell_c02(c, true, &st, &strict)).collect();
    rep.sink.extend(vs);
    // points well inside the REPORTED boundary ring (the property's second clause): from every reported
    // corner 10 %, 20 % and 50 % of the way to the reported centre, and from every reported edge midpoint
    // 10 % of the way; for cells that straddle a face edge, a sector ray or a vertex at fine resolutions
    // (found by looking up points on those lines) and for the word-aligned cells
    let mut ring_points = 0u64;
    {
        let fine: &[i32] = if tier == "quick" { &[20, 23, 26, 29] } else { &[12, 16, 18, 20, 21, 22, 23, 24, 25, 26, 27, 28, 29] };
        let mut cells: Vec<u64> = Vec::new();
        let frame_pts = en::frame_points_ladder(tier != "quick", 0);
        for (i, fp) in frame_pts.iter().enumerate() {
            if fp.tag == "frame-vertex-offset" && i % 4 != 0 {
                continue;
            }
            let (lon, lat) = rg::vec_to_ll(fp.v);
            for &r in fine {
                if let Ok(c) = subj::lookup(lon, lat, r) {
                    if rc::resolution(c) == Some(r) {
                        cells.push(c);
                    }
                }
            }
        }
        cells.extend(en::aligned_cells().into_iter().step_by(if tier == "quick" { 8 } else { 1 }));
        cells.sort_unstable();
        cells.dedup();
        let cnt = AtomicU64::new(0);
        let vs: Vec<Viol> = cells
            .par_iter()
            .flat_map(|&c| {
                let mut out = Vec::new();
                let r = rc::resolution(c).unwrap();
                let (ring, centre) = match (subj::boundary(c, false, Some(1)), subj::centre(c)) {
                    (Ok(ring), Ok(cc)) => (ring, cc),
                    _ => return out,
                };
                let cv = rg::ll_to_vec(centre.0, centre.1);
                let rv: Vec<V3> = ring.iter().map(|&(lo, la)| rg::ll_to_vec(lo, la)).collect();
                let mut probes: Vec<V3> = Vec::new();
                for (k, v) in rv.iter().enumerate() {
                    for f in [0.1, 0.2, 0.5] {
                        probes.push(rg::unit(rg::add(rg::scale(*v, 1.0 - f), rg::scale(cv, f))));
                    }
                    let m = rg::unit(rg::add(*v, rv[(k + 1) % rv.len()]));
                    probes.push(rg::unit(rg::add(rg::scale(m, 0.9), rg::scale(cv, 0.1))));
                }
                for p in probes {
                    let (lon, lat) = rg::vec_to_ll(p);
                    cnt.fetch_add(1, Ordering::Relaxed);
                    match subj::lookup(lon, lat, r) {
                        Ok(id) if id == c => {}
                        other => {
                            out.push(viol(
                                "C02/inside-reported-ring",
                                format!("point ({}, {}) lies well inside the ring cell_to_boundary reports for {} (between a reported corner or edge midpoint and the reported centre) but looks up to {:?}", lon, lat, subj::hex(c), other.map(subj::hex)),
                                json!({"kind": "ring_interior", "id": subj::hex(c), "lon": lon, "lat": lat}),
                            ));
                            break;
                        }
                    }
                }
                out
            })
            .collect();
        rep.sink.extend(vs);
        ring_points += cnt.load(Ordering::Relaxed);
    }
    rep.set("points_inside_reported_rings", json!(ring_points));
    let (clusters, cluster_pair_count, vs) = cluster_pairs(tier);
    rep.sink.extend(vs);
    rep.set("neighbour_clusters", json!(clusters));
    rep.set("ordered_pairs_of_interior_points_on_one_thread", json!(cluster_pair_count));
    let br = st.branches.lock().unwrap().clone();
    let hard: u64 = br.iter().filter(|(k, _)| **k > 1).map(|(_, v)| *v).sum();
    rep.set("evaluations", json!(ncentres + fam.len() as u64 + special.len() as u64 + strict.load(Ordering::Relaxed) + cluster_pair_count));
    rep.set("distinct_nontrivial", json!(hard));
    rep.set("rule", json!(format!("centres of all cells r<={} ({}), 51-point strict-interior lattice (fractions 0.5..0.9999 towards every vertex and edge midpoint) of all cells r<={}, of {} family cells to r=29 and of {} pole/antimeridian cells; plus, for clusters of 16 neighbouring cells at places spread over whole faces, all ordered pairs of the interior points that miss their first estimate, each pair on one thread; oracle: exact id equality; points are classified strict-interior by the real forward projection of what is actually passed to the API; distinct_nontrivial = lookups not answered by the first estimate", rc_max, ncentres, ri_max, fam.len(), special.len())));
    rep.set("exhaustive", json!(true));
    rep.set("exhaustive_scope", json!(format!("all cells r<={} (centres), r<={} (interior lattice)", rc_max, ri_max)));
    rep.set("strict_interior_points", json!(strict.load(Ordering::Relaxed)));
    rep.set("lookup_branch_histogram", json!(br.iter().map(|(k, v)| (branch_name(*k), *v)).collect::<BTreeMap<_, _>>()));
    rep.sample(json!({"cell": subj::hex(fam[fam.len() / 2]), "points": "centre + 51 interior"}));
    rep.assume("finer resolutions are covered on families and pole/antimeridian cells only");
    rep
}

pub fn replay(prop: &str, case: &Value) -> Vec<Viol> {
    let st = Stats::new();
    match (prop, case["kind"].as_str().unwrap_or("")) {
        ("C01", "lookup") if case["after_fillers"].is_u64() => {
            let (lon, lat, r) = (case["lon"].as_f64().unwrap(), case["lat"].as_f64().unwrap(), case["res"].as_i64().unwrap() as i32);
            let upto = case["after_fillers"].as_u64().unwrap() + 1;
            std::thread::spawn(move || {
                let st = Stats::new();
                let mut out = check_lookup(lon, lat, r, &st, false);
                for g in [255u64, 256, 257, 1023, 1024, 1025, 4096, 65535, 65536, 65537] {
                    if !out.is_empty() || g > upto {
                        break;
                    }
                    for _ in 1..g {
                        let _ = subj::lookup(-120.0, -40.0, r);
                    }
                    out = check_lookup(lon, lat, r, &st, false);
                }
                out
            })
            .join()
            .unwrap_or_default()
        }
        ("C01", "lookup") => check_lookup(case["lon"].as_f64().unwrap(), case["lat"].as_f64().unwrap(), case["res"].as_i64().unwrap() as i32, &st, true),
        ("C02", "ring_interior") => {
            let c = u64::from_str_radix(case["id"].as_str().unwrap(), 16).unwrap();
            let (lon, lat) = (case["lon"].as_f64().unwrap(), case["lat"].as_f64().unwrap());
            match subj::lookup(lon, lat, rc::resolution(c).unwrap_or(0)) {
                Ok(id) if id == c => vec![],
                other => vec![viol("C02/inside-reported-ring", format!("looks up to {:?}", other.map(subj::hex)), case.clone())],
            }
        }
        ("C02", "interior_after") => {
            let c = u64::from_str_radix(case["id"].as_str().unwrap(), 16).unwrap();
            let (lon, lat, r) = (case["lon"].as_f64().unwrap(), case["lat"].as_f64().unwrap(), case["res"].as_i64().unwrap() as i32);
            let (plon, plat) = (case["prev_lon"].as_f64().unwrap(), case["prev_lat"].as_f64().unwrap());
            let case2 = case.clone();
            std::thread::spawn(move || {
                let _ = subj::lookup(plon, plat, r);
                match subj::lookup(lon, lat, r) {
                    Ok(id) if id == c => vec![],
                    other => vec![viol("C02/interior-after-neighbour", format!("looks up to {:?} right after the lookup of the neighbour point", other.map(subj::hex)), case2)],
                }
            })
            .join()
            .unwrap()
        }
        ("C02", _) => {
            let c = u64::from_str_radix(case["id"].as_str().unwrap(), 16).unwrap();
            check_cell_c02(c, true, &st, &AtomicU64::new(0))
        }
        _ => vec![],
    }
}
