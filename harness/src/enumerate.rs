//! Enumerators for the discrete and continuous alphabets (DESIGN 3.1, 3.2). All deterministic.
use crate::refcodec as rc;
use crate::refgeom as rg;
use crate::refgeom::V3;

/// digit pattern catalogue P: cyclic patterns and prefix patterns
pub fn patterns() -> Vec<(String, Box<dyn Fn(usize) -> u64 + Send + Sync>)> {
    let mut out: Vec<(String, Box<dyn Fn(usize) -> u64 + Send + Sync>)> = Vec::new();
    for cyc in ["0", "1", "2", "3", "12", "21", "03", "30", "0123", "3210", "0312", "2031", "0013", "3320"] {
        let d: Vec<u64> = cyc.bytes().map(|b| (b - b'0') as u64).collect();
        out.push((format!("({})*", cyc), Box::new(move |k| d[k % d.len()])));
    }
    for k0 in [1usize, 2, 5, 13] {
        out.push((format!("0^{}3*", k0), Box::new(move |k| if k < k0 { 0 } else { 3 })));
        out.push((format!("3^{}0*", k0), Box::new(move |k| if k < k0 { 3 } else { 0 })));
        out.push((format!("1^{}2*", k0), Box::new(move |k| if k < k0 { 1 } else { 2 })));
    }
    out
}

/// FAM(r0, P): for every root of ALL(r0) (r0 >= 1) and every pattern, the chain of descendants
/// picking child pattern[level] at every level down to `max_r`. Returns distinct ids, sorted.
pub fn fam(r0: i32, max_r: i32) -> Vec<u64> {
    let roots = rc::all_cells(r0);
    let pats = patterns();
    let mut out = Vec::new();
    for &root in &roots {
        for (_, p) in &pats {
            let mut c = root;
            let mut k = 0usize;
            out.push(c);
            while rc::resolution(c).unwrap() < max_r {
                let ch = rc::children(c);
                c = ch[(p(k) as usize) % ch.len()];
                k += 1;
                out.push(c);
            }
        }
    }
    out.extend(aligned_cells().into_iter().filter(|&c| {
        let r = rc::resolution(c).unwrap();
        r >= r0 && r <= max_r
    }));
    out.sort_unstable();
    out.dedup();
    out
}

/// word-aligned cells (also the second-generation cells of the C06 table): positions whose low 8 / 12 / 16 curve digits are all 0 or all 3 below a
/// pseudo-random prefix (word-aligned ids, first / last descendants many levels down), every
/// (face, quintant), resolutions from 10 up
pub fn aligned_cells() -> Vec<u64> {
    let mut v = Vec::new();
    let mut x: u64 = 0x2545F4914F6CDD1D;
    for face in 0..12u64 {
        for quintant in 0..5u64 {
            for res in [10, 13, 14, 17, 18, 19, 21, 22, 25, 26, 28, 29] {
                let levels = (res - 1) as u32;
                for k in [8u32, 12, 16, 20] {
                    if k >= levels {
                        continue;
                    }
                    for fill in [0u64, 3] {
                        for _ in 0..2 {
                            x ^= x << 13;
                            x ^= x >> 7;
                            x ^= x << 17;
                            let hi_digits = levels - k;
                            let mut prefix = x & ((1u64 << (2 * hi_digits.min(31))) - 1);
                            // last prefix digit differs from the fill digit
                            if prefix & 3 == fill {
                                prefix ^= 1;
                            }
                            let low = if fill == 0 { 0 } else { (1u64 << (2 * k)) - 1 };
                            let s = (prefix << (2 * k)) | low;
                            if let Some(id) = rc::encode(rc::Tuple { face, quintant, s, res }) {
                                v.push(id);
                            }
                        }
                    }
                }
            }
        }
    }
    v.sort_unstable();
    v.dedup();
    v
}

/// chains (root -> ... -> leaf) of FAM, each as a Vec from r0 down to max_r
pub fn fam_chains(r0: i32, max_r: i32) -> Vec<Vec<u64>> {
    let roots = rc::all_cells(r0);
    let pats = patterns();
    let mut out = Vec::new();
    for &root in &roots {
        for (_, p) in &pats {
            let mut chain = vec![root];
            let mut c = root;
            let mut k = 0usize;
            while rc::resolution(c).unwrap() < max_r {
                let ch = rc::children(c);
                c = ch[(p(k) as usize) % ch.len()];
                k += 1;
                chain.push(c);
            }
            out.push(chain);
        }
    }
    out
}

pub fn all_upto(r: i32) -> Vec<u64> {
    let mut v = Vec::new();
    for k in 0..=r {
        v.extend(rc::all_cells(k));
    }
    v
}

// ------------------------------------------------------------------ sphere lattices (unit vectors)

#[derive(Clone, Debug)]
pub struct Pt {
    pub v: V3,
    pub tag: &'static str,
}

/// FRAME: the 62 frame vertices with tangent offsets, the 30 edge great circles and the 120
/// symmetry lines with normal offsets.
pub fn frame_points(dense: bool) -> Vec<Pt> {
    frame_points_ladder(dense, if dense { 2 } else { 1 })
}
/// ladder: 0 = five fixed normal offsets, 1 = two rungs per decade, 2 = seven rungs per decade
pub fn frame_points_ladder(dense: bool, ladder_level: u8) -> Vec<Pt> {
    let f = rg::frame();
    let mut out = Vec::new();
    let mut specials: Vec<V3> = f.centres.to_vec();
    specials.extend(f.vertices.iter().copied());
    specials.extend(f.midpoints.iter().copied());
    let offs: &[f64] = if dense {
        &[0.0, 1e-15, 1e-13, 1e-11, 1e-9, 1e-6, 1e-3]
    } else {
        &[0.0, 1e-13, 1e-9, 1e-6, 1e-3]
    };
    for s in &specials {
        for &o in offs {
            if o == 0.0 {
                out.push(Pt { v: *s, tag: "frame-vertex" });
                continue;
            }
            for k in 0..8 {
                let a = k as f64 * std::f64::consts::PI / 4.0 + 0.1;
                out.push(Pt { v: rg::offset(*s, o * a.cos(), o * a.sin()), tag: "frame-vertex-offset" });
            }
        }
    }
    let nseg = if dense { 33 } else { 9 };
    // geometric ladder: any band beside an edge or seam that is wider than a factor ~1.5 contains a rung
    let mut ladder: Vec<f64> = vec![0.0];
    let mants: &[f64] = if ladder_level >= 2 { &[1.0, 1.5, 2.0, 3.0, 4.0, 5.0, 7.0] } else { &[1.0, 4.0] };
    if ladder_level == 0 {
        ladder = vec![0.0, 1e-9, -1e-9, 1e-6, -1e-6];
    }
    let mut dec = 1e-13;
    while dec < 2e-3 && ladder_level > 0 {
        for m in mants {
            ladder.push(m * dec);
            ladder.push(-m * dec);
        }
        dec *= 10.0;
    }
    let noffs: &[f64] = &ladder;
    // dodecahedron edges: great circle between the two vertices adjacent to an edge midpoint
    for m in &f.midpoints {
        // the two frame vertices nearest to the midpoint
        let mut vs: Vec<(f64, V3)> = f.vertices.iter().map(|v| (rg::ang(*v, *m), *v)).collect();
        vs.sort_by(|a, b| a.0.partial_cmp(&b.0).unwrap());
        let (a, b) = (vs[0].1, vs[1].1);
        let nrm = rg::unit(rg::cross(a, b));
        for i in 0..nseg {
            let t = (i as f64 + 0.5) / nseg as f64;
            let p = rg::unit(rg::add(rg::scale(a, 1.0 - t), rg::scale(b, t)));
            for &o in noffs {
                out.push(Pt { v: rg::unit(rg::add(p, rg::scale(nrm, o))), tag: "face-edge" });
            }
        }
    }
    // symmetry lines: centre -> each of its 5 vertices and 5 edge midpoints
    for c in f.centres.iter() {
        let mut targets: Vec<V3> = Vec::new();
        for v in f.vertices.iter().chain(f.midpoints.iter()) {
            if rg::ang(*v, *c) < 0.7 {
                targets.push(*v);
            }
        }
        for tgt in targets {
            let nrm = rg::unit(rg::cross(*c, tgt));
            let steps = if dense { 9 } else { 4 };
            for i in 1..steps {
                let t = i as f64 / steps as f64;
                let p = rg::unit(rg::add(rg::scale(*c, 1.0 - t), rg::scale(tgt, t)));
                for &o in noffs {
                    out.push(Pt { v: rg::unit(rg::add(p, rg::scale(nrm, o))), tag: "sector-seam" });
                }
            }
        }
    }
    out
}

/// lon/lat lattices given directly in geodetic degrees (CAPS, MERID)
pub fn caps_lonlat() -> Vec<(f64, f64, &'static str)> {
    let mut lats: Vec<f64> = vec![90.0, 90.0 - 1e-9, 89.999999, 89.999, 89.9];
    let mut l = 89.0;
    while l >= 70.0 {
        lats.push(l);
        l -= 1.0;
    }
    let mut out = Vec::new();
    for sgn in [1.0, -1.0] {
        for &lat in &lats {
            for k in 0..48 {
                let lon = -180.0 + 7.5 * k as f64;
                out.push((lon, sgn * lat, "cap"));
            }
            for lon in [-93.0, 87.0, 180.0, 0.1234] {
                out.push((lon, sgn * lat, "cap"));
            }
        }
    }
    out
}
pub fn merid_lonlat() -> Vec<(f64, f64, &'static str)> {
    let mut out = Vec::new();
    // +-180 and the library's internal longitude seam (azimuth +-pi = longitude 87 E / -273)
    for lon in [180.0, -180.0, 179.9999999, -179.9999999, 540.0, -540.0, 87.0, 86.9999999, 87.0000001, -273.0] {
        for k in 0..73 {
            out.push((lon, -90.0 + 2.5 * k as f64, "antimeridian"));
        }
    }
    // signed zeros, denormals and exact range ends (a sign test or a clamp may treat them differently)
    for lon in [0.0, -0.0, 180.0, -180.0, 360.0, -360.0, 1e-300, -1e-300, 5e-324, -5e-324, 90.0, -90.0, 87.0, -93.0] {
        for lat in [0.0, -0.0, 90.0, -90.0, 1e-300, -1e-300, 5e-324, 45.0, -45.0] {
            out.push((lon, lat, "antimeridian"));
        }
    }
    out
}

/// full sphere lattice as lon/lat (deg) with tags: SPH(n) + FRAME + CAPS + MERID
pub fn sphere_lonlat(n_fib: usize, dense: bool) -> Vec<(f64, f64, &'static str)> {
    let mut out = Vec::new();
    for v in rg::fibonacci(n_fib) {
        let (lon, lat) = rg::vec_to_ll(v);
        out.push((lon, lat, "uniform"));
    }
    for p in frame_points_ladder(dense, if dense { 1 } else { 0 }) {
        let (lon, lat) = rg::vec_to_ll(p.v);
        out.push((lon, lat, p.tag));
    }
    out.extend(caps_lonlat());
    out.extend(merid_lonlat());
    out
}
