//! Evidence, violations, known findings, exit protocol.
use serde_json::{json, Map, Value};
use std::collections::BTreeMap;
use std::sync::Mutex;
use std::time::Instant;

#[derive(Clone, Debug)]
pub struct Viol {
    /// sub-check that fired, e.g. "C08/no-duplicates"
    pub class: String,
    /// what was observed vs expected, human readable
    pub what: String,
    /// the replayable case: {"kind": ..., ...}
    pub case: Value,
}

pub fn viol(class: &str, what: String, case: Value) -> Viol {
    VIOLS_CREATED.fetch_add(1, std::sync::atomic::Ordering::Relaxed);
    Viol { class: class.to_string(), what, case }
}
/// Flood control. A tree on which nearly every explored case fails (e.g. every call returns `Err` after the
/// n-th) would otherwise make an engine build millions of violation records. Once more than `FLOOD` have been
/// created, engines that poll `flooded()` skip their remaining cases; the evidence then says so
/// (`stopped_early_after_violations`, `exhaustive: false`). The verdict is unaffected: it is a violation anyway.
pub static VIOLS_CREATED: std::sync::atomic::AtomicU64 = std::sync::atomic::AtomicU64::new(0);
pub const FLOOD: u64 = 4000;
pub fn flooded() -> bool {
    VIOLS_CREATED.load(std::sync::atomic::Ordering::Relaxed) > FLOOD
}

/// Collector shared by rayon workers. Keeps the first `cap` violations per class (deterministic
/// selection: smallest case string) and counts all.
pub struct Sink {
    inner: Mutex<SinkInner>,
    cap: usize,
}
struct SinkInner {
    per_class: BTreeMap<String, (u64, BTreeMap<String, Viol>)>,
}
impl Sink {
    pub fn new() -> Self {
        Sink { inner: Mutex::new(SinkInner { per_class: BTreeMap::new() }), cap: 8 }
    }
    pub fn push(&self, v: Viol) {
        let key = { let k = v.case.to_string(); format!("{:08}{}", k.len(), k) };
        let mut g = self.inner.lock().unwrap();
        let e = g.per_class.entry(v.class.clone()).or_insert((0, BTreeMap::new()));
        e.0 += 1;
        e.1.insert(key, v);
        while e.1.len() > self.cap {
            let last = e.1.keys().next_back().cloned().unwrap();
            e.1.remove(&last);
        }
    }
    pub fn extend(&self, vs: Vec<Viol>) {
        for v in vs {
            self.push(v);
        }
    }
    pub fn total(&self) -> u64 {
        self.inner.lock().unwrap().per_class.values().map(|e| e.0).sum()
    }
    pub fn drain(&self) -> (Vec<Viol>, BTreeMap<String, u64>) {
        let g = self.inner.lock().unwrap();
        let mut out = Vec::new();
        let mut counts = BTreeMap::new();
        for (c, (n, m)) in g.per_class.iter() {
            counts.insert(c.clone(), *n);
            for v in m.values() {
                out.push(v.clone());
            }
        }
        (out, counts)
    }
}

pub struct Report {
    pub level: &'static str,
    pub coverage: Map<String, Value>,
    pub assumptions: Vec<String>,
    pub sink: Sink,
}
impl Report {
    pub fn new(level: &'static str) -> Self {
        Report { level, coverage: Map::new(), assumptions: Vec::new(), sink: Sink::new() }
    }
    pub fn set(&mut self, k: &str, v: Value) {
        self.coverage.insert(k.to_string(), v);
    }
    pub fn add(&mut self, k: &str, n: u64) {
        let cur = self.coverage.get(k).and_then(|v| v.as_u64()).unwrap_or(0);
        self.coverage.insert(k.to_string(), json!(cur + n));
    }
    pub fn sample(&mut self, v: Value) {
        let e = self.coverage.entry("samples".to_string()).or_insert_with(|| json!([]));
        let a = e.as_array_mut().unwrap();
        if a.len() < 12 {
            a.push(v);
        }
    }
    pub fn assume(&mut self, s: &str) {
        self.assumptions.push(s.to_string());
    }
}

pub fn fnv(s: &str) -> u64 {
    let mut h: u64 = 0xcbf29ce484222325;
    for b in s.bytes() {
        h ^= b as u64;
        h = h.wrapping_mul(0x100000001b3);
    }
    h
}

/// known_findings.json: [{"property": "C01", "status": "known"|"fixed", "class": "...", "match": {...}, "what": "..."}]
/// A violation is covered by a "known" entry when property and class are equal and every key of
/// "match" equals the same key of the violation's case.
pub fn load_findings(dir: &str) -> Vec<Value> {
    let p = format!("{}/known_findings.json", dir);
    match std::fs::read_to_string(&p) {
        Ok(s) => serde_json::from_str::<Value>(&s).ok().and_then(|v| v.as_array().cloned()).unwrap_or_default(),
        Err(_) => vec![],
    }
}
fn covered(findings: &[Value], prop: &str, v: &Viol) -> Option<String> {
    for f in findings {
        if f["status"] != "known" || f["property"] != prop || f["class"] != v.class.as_str() {
            continue;
        }
        let ok = match f["match"].as_object() {
            Some(m) => m.iter().all(|(k, val)| &v.case[k] == val),
            None => true,
        };
        if ok {
            return Some(f["what"].as_str().unwrap_or("").to_string());
        }
    }
    None
}

/// Writes evidence, replays, prints VIOLATION / KNOWN-FINDING lines. Returns exit code.
pub fn finish(verif_dir: &str, prop: &str, tier: &str, seed: i64, start: Instant, mut rep: Report) -> i32 {
    let findings = load_findings(verif_dir);
    let (viols, counts) = rep.sink.drain();
    let mut new_viols: Vec<&Viol> = Vec::new();
    let mut known: BTreeMap<String, u64> = BTreeMap::new();
    for v in &viols {
        match covered(&findings, prop, v) {
            Some(w) => *known.entry(w).or_insert(0) += 1,
            None => new_viols.push(v),
        }
    }
    let mut lines: Vec<String> = Vec::new();
    for (w, _) in &known {
        lines.push(format!("KNOWN-FINDING: property={} {}", prop, w));
    }
    let mut replay_paths = Vec::new();
    if !new_viols.is_empty() {
        let dir = format!("{}/replays/{}", verif_dir, prop);
        let _ = std::fs::create_dir_all(&dir);
        for v in new_viols.iter().take(10) {
            let body = json!({"property": prop, "class": v.class, "what": v.what, "case": v.case});
            let s = serde_json::to_string_pretty(&body).unwrap();
            let path = format!("{}/{:016x}.json", dir, fnv(&format!("{}{}", v.class, v.case)));
            let _ = std::fs::write(&path, s);
            lines.push(format!("VIOLATION property={} replay={}", prop, path));
            lines.push(format!("  class={} {}", v.class, v.what));
            replay_paths.push(path);
        }
    }
    let nviol: u64 = counts.values().sum();
    rep.coverage.insert("violation_classes".into(), json!(counts));
    if flooded() {
        rep.coverage.insert("stopped_early_after_violations".into(), json!(VIOLS_CREATED.load(std::sync::atomic::Ordering::Relaxed)));
        rep.coverage.insert("exhaustive".into(), json!(false));
    }
    if !rep.coverage.contains_key("samples") {
        rep.coverage.insert("samples".into(), json!(["(no sample recorded)"]));
    }
    let ev = json!({
        "property_id": prop,
        "tier": tier,
        "seed": seed,
        "level": rep.level,
        "coverage": Value::Object(rep.coverage),
        "assumptions": rep.assumptions,
        "wall_s": (start.elapsed().as_secs_f64() * 1000.0).round() / 1000.0,
        "violations": nviol,
        "known_findings_matched": known,
        "replays": replay_paths,
    });
    let _ = std::fs::create_dir_all(format!("{}/evidence", verif_dir));
    std::fs::write(format!("{}/evidence/{}.json", verif_dir, prop), serde_json::to_string_pretty(&ev).unwrap())
        .expect("cannot write evidence");
    for l in lines {
        println!("{}", l);
    }
    if new_viols.is_empty() {
        0
    } else {
        1
    }
}
