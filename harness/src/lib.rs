pub mod checks;
pub mod enumerate;
pub mod ev;
pub mod geo;
pub mod race_ops;
pub mod refcodec;
pub mod refgeom;
pub mod subj;
