//! RefCodec / RefTree / RefCompact: the documented 64-bit layout and the cell hierarchy written
//! from the property text as plain integer arithmetic. Never calls a5::core::serialization.
//!
//! Layout: 6 bits = face (r=0) or 5*face+code (r>=1), 2 bits per curve level from r=2, one
//! marker bit, zeros. World cell = 0. `code = (quintant + 5 - FIRST[face]) % 5`.

use std::collections::{BTreeSet, HashMap, HashSet};

/// Frozen constant of the reference: first quintant of each face.
pub const FIRST: [u64; 12] = [4, 2, 3, 0, 2, 4, 2, 2, 3, 0, 3, 0];
pub const MAX_RES: i32 = 29;

#[derive(Clone, Copy, Debug, PartialEq, Eq, Hash, PartialOrd, Ord)]
pub struct Tuple {
    pub face: u64,
    pub quintant: u64, // "segment" of the subject's A5Cell
    pub s: u64,
    pub res: i32,
}

/// Bit position of the marker for resolution r (0..=29)
pub fn marker_pos(r: i32) -> u32 {
    match r {
        0 => 57,
        1 => 56,
        _ => (57 - 2 * (r - 1)) as u32,
    }
}

pub fn encode(t: Tuple) -> Option<u64> {
    if t.res == -1 {
        return Some(0);
    }
    if t.res < -1 || t.res > MAX_RES || t.face > 11 || t.quintant > 4 {
        return None;
    }
    let top = if t.res == 0 { t.face } else { 5 * t.face + (t.quintant + 5 - FIRST[t.face as usize]) % 5 };
    let mut id = top << 58;
    if t.res >= 2 {
        let bits = 2 * (t.res - 1) as u32;
        if bits < 64 && t.s >> bits != 0 {
            return None;
        }
        id |= t.s << (58 - bits);
    } else if t.s != 0 {
        return None;
    }
    id |= 1u64 << marker_pos(t.res);
    Some(id)
}

/// Resolution of a canonical id, by the position of the lowest set bit; None if not canonical.
pub fn decode(id: u64) -> Option<Tuple> {
    if id == 0 {
        return Some(Tuple { face: 0, quintant: 0, s: 0, res: -1 });
    }
    let p = id.trailing_zeros();
    let top = id >> 58;
    let res: i32 = if p == 57 {
        0
    } else if p == 56 {
        1
    } else if p <= 55 && p % 2 == 1 {
        (57 - p as i32) / 2 + 1
    } else {
        return None;
    };
    if res == 0 {
        if top > 11 {
            return None;
        }
        return Some(Tuple { face: top, quintant: 0, s: 0, res });
    }
    if top > 59 {
        return None;
    }
    let face = top / 5;
    let quintant = (top % 5 + FIRST[face as usize]) % 5;
    let s = if res >= 2 { (id & 0x03ff_ffff_ffff_ffff) >> (p + 1) } else { 0 };
    Some(Tuple { face, quintant, s, res })
}

pub fn is_canonical(id: u64) -> bool {
    match decode(id) {
        Some(t) => encode(t) == Some(id),
        None => false,
    }
}

pub fn resolution(id: u64) -> Option<i32> {
    decode(id).map(|t| t.res)
}

/// Number of cells at resolution r (exact, u128 to be safe)
pub fn num_cells(r: i32) -> u128 {
    match r {
        -1 => 1,
        0 => 12,
        _ => 60u128 * 4u128.pow((r - 1) as u32),
    }
}

/// fan-out from resolution a to resolution b >= a
pub fn fanout(a: i32, b: i32) -> u128 {
    num_cells(b) / num_cells(a)
}

pub fn parent(id: u64) -> Option<u64> {
    let t = decode(id)?;
    match t.res {
        -1 => None,
        0 => Some(0),
        1 => encode(Tuple { face: t.face, quintant: 0, s: 0, res: 0 }),
        2 => encode(Tuple { face: t.face, quintant: t.quintant, s: 0, res: 1 }),
        r => encode(Tuple { s: t.s >> 2, res: r - 1, ..t }),
    }
}

pub fn ancestor(id: u64, r: i32) -> Option<u64> {
    let mut c = id;
    let mut cr = resolution(id)?;
    if r > cr || r < -1 {
        return None;
    }
    while cr > r {
        c = parent(c)?;
        cr -= 1;
    }
    Some(c)
}

pub fn children(id: u64) -> Vec<u64> {
    let t = match decode(id) {
        Some(t) => t,
        None => return vec![],
    };
    match t.res {
        -1 => (0..12).map(|f| encode(Tuple { face: f, quintant: 0, s: 0, res: 0 }).unwrap()).collect(),
        0 => (0..5).map(|q| encode(Tuple { face: t.face, quintant: q, s: 0, res: 1 }).unwrap()).collect(),
        r if r >= MAX_RES => vec![],
        1 => (0..4).map(|d| encode(Tuple { s: d, res: 2, ..t }).unwrap()).collect(),
        r => (0..4).map(|d| encode(Tuple { s: (t.s << 2) | d, res: r + 1, ..t }).unwrap()).collect(),
    }
}

pub fn descendants(id: u64, r: i32) -> Vec<u64> {
    let cr = resolution(id).unwrap();
    let mut cur = vec![id];
    for _ in cr..r {
        cur = cur.iter().flat_map(|&c| children(c)).collect();
    }
    cur
}

pub fn is_descendant_or_self(c: u64, anc: u64) -> bool {
    match (resolution(c), resolution(anc)) {
        (Some(rc), Some(ra)) if ra <= rc => ancestor(c, ra) == Some(anc),
        _ => false,
    }
}

/// cover(S, R): the set of resolution-R cells covered by the (possibly overlapping) set S
pub fn cover(s: &[u64], r: i32) -> BTreeSet<u64> {
    let mut out = BTreeSet::new();
    for &c in s {
        for d in descendants(c, r) {
            out.insert(d);
        }
    }
    out
}

pub fn sibling_count(child_res: i32) -> usize {
    match child_res {
        0 => 12,
        1 => 5,
        _ => 4,
    }
}

/// Canonical compaction of a set (overlap allowed: descendants of a present ancestor are absorbed)
pub fn compact(s: &[u64]) -> Vec<u64> {
    let mut set: HashSet<u64> = s.iter().copied().collect();
    // absorb cells that have a proper ancestor in the set
    let snapshot: Vec<u64> = set.iter().copied().collect();
    for &c in &snapshot {
        let mut p = c;
        while let Some(pp) = parent(p) {
            if set.contains(&pp) {
                set.remove(&c);
                break;
            }
            p = pp;
        }
    }
    let maxr = set.iter().filter_map(|&c| resolution(c)).max().unwrap_or(-1);
    let mut r = maxr;
    while r >= 0 {
        let mut groups: HashMap<u64, usize> = HashMap::new();
        for &c in set.iter() {
            if resolution(c) == Some(r) {
                *groups.entry(parent(c).unwrap()).or_insert(0) += 1;
            }
        }
        for (p, n) in groups {
            if n == sibling_count(r) {
                for ch in children(p) {
                    set.remove(&ch);
                }
                set.insert(p);
            }
        }
        r -= 1;
    }
    let mut v: Vec<u64> = set.into_iter().collect();
    v.sort_unstable();
    v
}

pub fn has_overlap(s: &[u64]) -> bool {
    let set: HashSet<u64> = s.iter().copied().collect();
    if set.len() != s.len() {
        return true;
    }
    for &c in s {
        let mut p = c;
        while let Some(pp) = parent(p) {
            if set.contains(&pp) {
                return true;
            }
            p = pp;
        }
    }
    false
}

pub fn has_complete_sibling_group(s: &[u64]) -> bool {
    let mut groups: HashMap<u64, HashSet<u64>> = HashMap::new();
    for &c in s {
        if let Some(p) = parent(c) {
            groups.entry(p).or_default().insert(c);
        }
    }
    groups.iter().any(|(p, g)| g.len() == sibling_count(resolution(*p).unwrap() + 1))
}

/// All cells of resolution r, in (face, code, s) order = ascending numeric order within a resolution
pub fn all_cells(r: i32) -> Vec<u64> {
    descendants(0, r)
}
