//! Shared geometric helpers that combine subject calls with reference geometry.
use crate::refcodec as rc;
use crate::refgeom as rg;
use crate::refgeom::{P2, V3};
use crate::subj;

/// inradius / circumradius of the face pentagon in the gnomonic face plane (regular dodecahedron
/// circumscribed about the unit sphere): tan(atan(2)/2) and inradius / cos 36
pub fn face_inradius() -> f64 {
    (2.0f64.atan() / 2.0).tan()
}
pub fn face_circumradius() -> f64 {
    face_inradius() / (36.0 * rg::DEG).cos()
}
/// reference face pentagon: regular, edge midpoints at azimuth 72k deg, vertices at 36 + 72k deg (CCW)
pub fn ref_face_pentagon() -> Vec<P2> {
    let r = face_circumradius();
    (0..5).map(|k| {
        let a = (36.0 + 72.0 * k as f64) * rg::DEG;
        [r * a.cos(), r * a.sin()]
    }).collect()
}
pub fn face_area() -> f64 {
    rg::shoelace(&ref_face_pentagon())
}
/// sphere area per unit of planar area
pub fn area_scale() -> f64 {
    4.0 * rg::PI / (12.0 * face_area())
}

/// planar CCW polygon of a cell and its face
pub fn cell_poly(c: u64) -> Result<(u8, Vec<P2>), String> {
    let (f, p) = subj::pentagon(c)?;
    Ok((f, rg::ccw(p)))
}

/// signed planar distance (positive inside) of the sphere point v to cell c's polygon, using the
/// real forward projection relative to the cell's face
pub fn planar_signed_dist(c: u64, v: V3) -> Result<f64, String> {
    let (f, poly) = cell_poly(c)?;
    let p = subj::forward(v, f)?;
    Ok(rg::signed_dist_convex(&poly, p))
}

/// the cell's ring on the sphere from the public boundary call (open ring), as unit vectors
pub fn ring_vectors(c: u64, n: i32) -> Result<Vec<V3>, String> {
    let b = subj::boundary(c, false, Some(n))?;
    Ok(b.iter().map(|&(lon, lat)| rg::ll_to_vec(lon, lat)).collect())
}

/// angular "size" (sqrt of the nominal cell area) at resolution r
pub fn cell_size(r: i32) -> f64 {
    (4.0 * rg::PI / rc::num_cells(r) as f64).sqrt()
}

/// interior lattice of a cell (DESIGN 3.2 CELLPTS): centroid + f*(v|m - centroid), planar points
pub fn cell_interior_points(poly: &[P2], fracs: &[f64]) -> Vec<P2> {
    let c = rg::centroid_mean(poly);
    let n = poly.len();
    let mut out = vec![c];
    for i in 0..n {
        let v = poly[i];
        let w = poly[(i + 1) % n];
        let m = [(v[0] + w[0]) / 2.0, (v[1] + w[1]) / 2.0];
        for &f in fracs {
            out.push([c[0] + f * (v[0] - c[0]), c[1] + f * (v[1] - c[1])]);
            out.push([c[0] + f * (m[0] - c[0]), c[1] + f * (m[1] - c[1])]);
        }
    }
    out
}
