//! RefSphere / RefPlane / RefFrame: boring, independent geometry used only as oracles.

pub type V3 = [f64; 3];
pub type P2 = [f64; 2];

pub const PI: f64 = std::f64::consts::PI;
pub const DEG: f64 = PI / 180.0;

// ---------------------------------------------------------------- vectors
pub fn dot(a: V3, b: V3) -> f64 {
    a[0] * b[0] + a[1] * b[1] + a[2] * b[2]
}
pub fn cross(a: V3, b: V3) -> V3 {
    [a[1] * b[2] - a[2] * b[1], a[2] * b[0] - a[0] * b[2], a[0] * b[1] - a[1] * b[0]]
}
pub fn norm(a: V3) -> f64 {
    dot(a, a).sqrt()
}
pub fn unit(a: V3) -> V3 {
    let n = norm(a);
    [a[0] / n, a[1] / n, a[2] / n]
}
pub fn add(a: V3, b: V3) -> V3 {
    [a[0] + b[0], a[1] + b[1], a[2] + b[2]]
}
pub fn sub(a: V3, b: V3) -> V3 {
    [a[0] - b[0], a[1] - b[1], a[2] - b[2]]
}
pub fn scale(a: V3, s: f64) -> V3 {
    [a[0] * s, a[1] * s, a[2] * s]
}
/// angular distance, accurate for all angles
pub fn ang(a: V3, b: V3) -> f64 {
    norm(cross(a, b)).atan2(dot(a, b))
}
/// unit vector from azimuth theta and polar angle phi
pub fn from_theta_phi(theta: f64, phi: f64) -> V3 {
    [phi.sin() * theta.cos(), phi.sin() * theta.sin(), phi.cos()]
}
/// (theta, phi) by atan2 only
pub fn to_theta_phi(v: V3) -> (f64, f64) {
    (v[1].atan2(v[0]), (v[0] * v[0] + v[1] * v[1]).sqrt().atan2(v[2]))
}
/// an orthonormal tangent basis at unit vector c
pub fn tangent_basis(c: V3) -> (V3, V3) {
    let h = if c[2].abs() < 0.9 { [0.0, 0.0, 1.0] } else { [1.0, 0.0, 0.0] };
    let e = unit(cross(h, c));
    let n = cross(c, e);
    (e, n)
}
/// point at tangent offset (a, b) radians from c (exponential map)
pub fn offset(c: V3, a: f64, b: f64) -> V3 {
    let (e, n) = tangent_basis(c);
    let d = (a * a + b * b).sqrt();
    if d == 0.0 {
        return c;
    }
    let dir = add(scale(e, a / d), scale(n, b / d));
    unit(add(scale(c, d.cos()), scale(dir, d.sin())))
}

// ---------------------------------------------------------------- WGS84 authalic latitude
pub const WGS84_F: f64 = 1.0 / 298.257223563;
pub const WGS84_A: f64 = 6378137.0;
pub fn e2() -> f64 {
    WGS84_F * (2.0 - WGS84_F)
}

const GL_X: [f64; 8] = [
    0.0950125098376374401853193,
    0.2816035507792589132304605,
    0.4580167776572273863424194,
    0.6178762444026437484466718,
    0.7554044083550030338951012,
    0.8656312023878317438804679,
    0.9445750230732325760779884,
    0.9894009349916499325961542,
];
const GL_W: [f64; 8] = [
    0.1894506104550684962853967,
    0.1826034150449235888667637,
    0.1691565193950025381893121,
    0.1495959888165767320815017,
    0.1246289712555338720524763,
    0.0951585116824927848099251,
    0.0622535239386478928628438,
    0.0271524594117540948517806,
];

/// I(psi) = integral_0^psi sin t / (1 - e^2 cos^2 t)^2 dt  (psi = geodetic colatitude), by
/// composite 16-point Gauss-Legendre. Relative accuracy ~1e-16 for every psi in [0, pi/2].
fn cap_integral(psi: f64) -> f64 {
    let e2 = e2();
    // the integrand is entire and slowly varying: one 16-point panel is exact to rounding on short
    // intervals, eight panels on the full quarter circle
    let panels = if psi < 0.05 { 1 } else if psi < 0.4 { 3 } else { 8 };
    let mut total = 0.0;
    for k in 0..panels {
        let a = psi * k as f64 / panels as f64;
        let b = psi * (k + 1) as f64 / panels as f64;
        let (m, h) = (0.5 * (a + b), 0.5 * (b - a));
        let mut s = 0.0;
        for i in 0..8 {
            for sg in [-1.0, 1.0] {
                let t = m + sg * h * GL_X[i];
                let c = t.cos();
                let d = 1.0 - e2 * c * c;
                s += GL_W[i] * t.sin() / (d * d);
            }
        }
        total += s * h;
    }
    total
}

/// authalic colatitude (from the nearer pole) for geodetic colatitude psi in [0, pi/2]:
/// 2 sin^2(psi'/2) = I(psi) / I(pi/2)   (equal cap areas)
fn cap_full() -> f64 {
    static FULL: std::sync::OnceLock<f64> = std::sync::OnceLock::new();
    *FULL.get_or_init(|| cap_integral(PI / 2.0))
}

pub fn authalic_colat(psi: f64) -> f64 {
    let full = cap_full();
    let r = (cap_integral(psi) / (2.0 * full)).sqrt();
    2.0 * r.min(1.0).asin()
}

/// geodetic colatitude for authalic colatitude psi' in [0, pi/2] (Newton on the cap integral)
pub fn geodetic_colat(psia: f64) -> f64 {
    if psia == 0.0 {
        return 0.0;
    }
    let e2 = e2();
    let full = cap_full();
    let h = (psia / 2.0).sin();
    let target = 2.0 * full * h * h;
    let mut psi = psia;
    for _ in 0..60 {
        let f = cap_integral(psi) - target;
        let c = psi.cos();
        let d = 1.0 - e2 * c * c;
        let fp = psi.sin() / (d * d);
        let step = f / fp;
        psi -= step;
        if psi <= 0.0 {
            psi = 1e-300;
        }
        if step.abs() <= 1e-17 * psi.abs().max(1e-300) {
            break;
        }
    }
    psi
}

/// geodetic latitude (rad) -> authalic latitude (rad), quadrature form (accurate at the poles)
pub fn authalic_lat(phi: f64) -> f64 {
    if phi >= 0.0 {
        PI / 2.0 - authalic_colat(PI / 2.0 - phi)
    } else {
        -(PI / 2.0 - authalic_colat(PI / 2.0 + phi))
    }
}

/// closed-form WGS84 authalic latitude (Snyder): beta = asin(q/qp)
pub fn authalic_lat_closed_form(phi: f64) -> f64 {
    let e2 = e2();
    let e = e2.sqrt();
    let q = |p: f64| {
        let s = p.sin();
        (1.0 - e2) * (s / (1.0 - e2 * s * s) - (1.0 / (2.0 * e)) * ((1.0 - e * s) / (1.0 + e * s)).ln())
    };
    (q(phi) / q(PI / 2.0)).clamp(-1.0, 1.0).asin()
}

/// authalic sphere area of WGS84 in m^2
pub fn authalic_area_m2() -> f64 {
    let e2 = e2();
    let e = e2.sqrt();
    let qp = 1.0 + (1.0 - e2) / (2.0 * e) * ((1.0 + e) / (1.0 - e)).ln();
    // R_A^2 = a^2 qp / 2 ; area = 4 pi R_A^2
    4.0 * PI * WGS84_A * WGS84_A * qp / 2.0
}

pub const LON_OFFSET_DEG: f64 = 93.0;

/// geodetic lon/lat in degrees -> unit vector on the authalic sphere, in the documented frame
/// (azimuth 0 = longitude -93 deg)
pub fn ll_to_vec(lon: f64, lat: f64) -> V3 {
    let theta = (lon + LON_OFFSET_DEG) * DEG;
    // colatitude from the nearer pole, computed without cancellation
    if lat >= 0.0 {
        let psi = (90.0 - lat) * DEG;
        from_theta_phi(theta, authalic_colat(psi.max(0.0)))
    } else {
        let psi = (90.0 + lat) * DEG;
        let pa = authalic_colat(psi.max(0.0));
        let v = from_theta_phi(theta, pa);
        [v[0], v[1], -v[2]]
    }
}

/// unit vector -> geodetic lon/lat in degrees (lon in (-180, 180])
pub fn vec_to_ll(v: V3) -> (f64, f64) {
    let rho = (v[0] * v[0] + v[1] * v[1]).sqrt();
    let mut lon = v[1].atan2(v[0]) / DEG - LON_OFFSET_DEG;
    while lon <= -180.0 {
        lon += 360.0;
    }
    while lon > 180.0 {
        lon -= 360.0;
    }
    let lat = if v[2] >= 0.0 {
        let pa = rho.atan2(v[2]);
        90.0 - geodetic_colat(pa) / DEG
    } else {
        let pa = rho.atan2(-v[2]);
        -(90.0 - geodetic_colat(pa) / DEG)
    };
    (lon, lat)
}

// ---------------------------------------------------------------- spherical polygons
/// signed area of the spherical triangle (a, b, c), positive if counter-clockwise seen from outside
pub fn tri_area(a: V3, b: V3, c: V3) -> f64 {
    // Van Oosterom-Strackee
    let num = dot(a, cross(b, c));
    let den = 1.0 + dot(a, b) + dot(b, c) + dot(c, a);
    2.0 * num.atan2(den)
}

/// signed area of a spherical polygon (ring without repeated last point), centroid fan,
/// differences taken relative to the centroid for accuracy on tiny polygons
pub fn poly_area(ring: &[V3]) -> f64 {
    let n = ring.len();
    if n < 3 {
        return 0.0;
    }
    let mut c = [0.0; 3];
    for v in ring {
        c = add(c, *v);
    }
    if norm(c) == 0.0 {
        return f64::NAN;
    }
    let c = unit(c);
    let mut area = 0.0;
    for i in 0..n {
        let a = ring[i];
        let b = ring[(i + 1) % n];
        // difference form: triple product c.(a x b) = c.((a-c) x (b-c))
        let da = sub(a, c);
        let db = sub(b, c);
        let num = dot(c, cross(da, db));
        let den = 1.0 + dot(c, a) + dot(a, b) + dot(b, c);
        area += 2.0 * num.atan2(den);
    }
    area
}

/// winding number of the ring around point p, computed in the tangent plane at p (gnomonic).
/// Valid when the ring lies in the open hemisphere around p. Returns None otherwise.
pub fn winding(ring: &[V3], p: V3) -> Option<i32> {
    let (e, n) = tangent_basis(p);
    let mut pts = Vec::with_capacity(ring.len());
    for v in ring {
        let d = dot(*v, p);
        if d <= 1e-6 {
            return None;
        }
        pts.push([dot(*v, e) / d, dot(*v, n) / d]);
    }
    let mut total = 0.0;
    for i in 0..pts.len() {
        let a = pts[i];
        let b = pts[(i + 1) % pts.len()];
        total += (a[0] * b[1] - a[1] * b[0]).atan2(a[0] * b[0] + a[1] * b[1]);
    }
    Some((total / (2.0 * PI)).round() as i32)
}

/// minimum angular distance from p to the great-circle segments of the ring
pub fn dist_to_ring(ring: &[V3], p: V3) -> f64 {
    let mut best = f64::INFINITY;
    for i in 0..ring.len() {
        let a = ring[i];
        let b = ring[(i + 1) % ring.len()];
        best = best.min(dist_to_arc(a, b, p));
    }
    best
}
fn dist_to_arc(a: V3, b: V3, p: V3) -> f64 {
    let nrm = cross(a, b);
    let l = norm(nrm);
    if l < 1e-300 {
        return ang(a, p);
    }
    let nrm = scale(nrm, 1.0 / l);
    // projection of p on the great circle
    let q = sub(p, scale(nrm, dot(p, nrm)));
    let inside = dot(cross(a, q), nrm) >= 0.0 && dot(cross(q, b), nrm) >= 0.0;
    if inside {
        dot(p, nrm).abs().asin()
    } else {
        ang(a, p).min(ang(b, p))
    }
}

// ---------------------------------------------------------------- planar polygons
pub fn shoelace(poly: &[P2]) -> f64 {
    let n = poly.len();
    if n < 3 {
        return 0.0;
    }
    // relative to the first vertex, so that tiny polygons far from the origin keep their precision
    let o = poly[0];
    let mut a = 0.0;
    for i in 0..n {
        let p = [poly[i][0] - o[0], poly[i][1] - o[1]];
        let q = [poly[(i + 1) % n][0] - o[0], poly[(i + 1) % n][1] - o[1]];
        a += p[0] * q[1] - q[0] * p[1];
    }
    0.5 * a
}
pub fn centroid_mean(poly: &[P2]) -> P2 {
    let n = poly.len() as f64;
    let mut c = [0.0, 0.0];
    for p in poly {
        c[0] += p[0] / n;
        c[1] += p[1] / n;
    }
    c
}
/// make counter-clockwise (positive shoelace)
pub fn ccw(mut poly: Vec<P2>) -> Vec<P2> {
    if shoelace(&poly) < 0.0 {
        poly.reverse();
    }
    poly
}
/// signed perpendicular distance of p to the boundary of a convex CCW polygon: min over edges of
/// the distance to the edge line, positive inside
pub fn signed_dist_convex(poly: &[P2], p: P2) -> f64 {
    let n = poly.len();
    let mut best = f64::INFINITY;
    for i in 0..n {
        let a = poly[i];
        let b = poly[(i + 1) % n];
        let (ex, ey) = (b[0] - a[0], b[1] - a[1]);
        let l = (ex * ex + ey * ey).sqrt();
        if l == 0.0 {
            continue;
        }
        let d = (ex * (p[1] - a[1]) - ey * (p[0] - a[0])) / l;
        best = best.min(d);
    }
    best
}
/// Sutherland-Hodgman: clip subject polygon by convex CCW clip polygon
pub fn clip_convex(subject: &[P2], clip: &[P2]) -> Vec<P2> {
    let mut out: Vec<P2> = subject.to_vec();
    let n = clip.len();
    for i in 0..n {
        let a = clip[i];
        let b = clip[(i + 1) % n];
        let inp = out;
        out = Vec::new();
        if inp.is_empty() {
            break;
        }
        let side = |p: P2| (b[0] - a[0]) * (p[1] - a[1]) - (b[1] - a[1]) * (p[0] - a[0]);
        for j in 0..inp.len() {
            let cur = inp[j];
            let prev = inp[(j + inp.len() - 1) % inp.len()];
            let (sc, sp) = (side(cur), side(prev));
            if sc >= 0.0 {
                if sp < 0.0 {
                    let t = sp / (sp - sc);
                    out.push([prev[0] + t * (cur[0] - prev[0]), prev[1] + t * (cur[1] - prev[1])]);
                }
                out.push(cur);
            } else if sp >= 0.0 {
                let t = sp / (sp - sc);
                out.push([prev[0] + t * (cur[0] - prev[0]), prev[1] + t * (cur[1] - prev[1])]);
            }
        }
    }
    out
}
pub fn diameter(poly: &[P2]) -> f64 {
    let mut d: f64 = 0.0;
    for a in poly {
        for b in poly {
            d = d.max(((a[0] - b[0]).powi(2) + (a[1] - b[1]).powi(2)).sqrt());
        }
    }
    d
}
pub fn is_convex_ccw(poly: &[P2]) -> bool {
    let n = poly.len();
    for i in 0..n {
        let a = poly[i];
        let b = poly[(i + 1) % n];
        let c = poly[(i + 2) % n];
        if (b[0] - a[0]) * (c[1] - b[1]) - (b[1] - a[1]) * (c[0] - b[0]) < -1e-15 {
            return false;
        }
    }
    true
}

// ---------------------------------------------------------------- reference frame
/// Regular dodecahedron from first principles, in the documented numbering.
pub struct Frame {
    pub centres: [V3; 12],
    pub vertices: Vec<V3>,  // 20
    pub midpoints: Vec<V3>, // 30
    pub edges: Vec<(usize, usize)>, // face pairs sharing an edge (30)
}

/// generation order -> documented id order
const ORDER: [usize; 12] = [0, 1, 2, 4, 3, 5, 7, 8, 6, 11, 10, 9];

pub fn frame() -> Frame {
    let ring = 2.0f64.atan(); // 63.4349488 deg
    let mut gen: Vec<V3> = vec![[0.0, 0.0, 1.0]];
    for i in 0..5 {
        let alpha = i as f64 * 72.0 * DEG;
        gen.push(from_theta_phi(alpha, ring));
        gen.push(from_theta_phi(alpha + 36.0 * DEG, PI - ring));
    }
    gen.push([0.0, 0.0, -1.0]);
    let mut centres = [[0.0; 3]; 12];
    for k in 0..12 {
        centres[k] = gen[ORDER[k]];
    }
    let mut edges = Vec::new();
    let mut midpoints = Vec::new();
    for i in 0..12 {
        for j in (i + 1)..12 {
            let a = ang(centres[i], centres[j]);
            if (a - ring).abs() < 1e-9 {
                edges.push((i, j));
                midpoints.push(unit(add(centres[i], centres[j])));
            }
        }
    }
    let mut vertices: Vec<V3> = Vec::new();
    for i in 0..12 {
        for j in (i + 1)..12 {
            for k in (j + 1)..12 {
                let ok = |a: usize, b: usize| (ang(centres[a], centres[b]) - ring).abs() < 1e-9;
                if ok(i, j) && ok(j, k) && ok(i, k) {
                    vertices.push(unit(add(add(centres[i], centres[j]), centres[k])));
                }
            }
        }
    }
    Frame { centres, vertices, midpoints, edges }
}

impl Frame {
    /// faces sorted by angular distance to v
    pub fn ranked(&self, v: V3) -> Vec<(f64, usize)> {
        let mut r: Vec<(f64, usize)> = (0..12).map(|i| (ang(self.centres[i], v), i)).collect();
        r.sort_by(|a, b| a.partial_cmp(b).unwrap());
        r
    }
}

/// Fibonacci lattice of n points on the unit sphere
pub fn fibonacci(n: usize) -> Vec<V3> {
    let golden = PI * (3.0 - 5f64.sqrt());
    (0..n)
        .map(|i| {
            let z = 1.0 - (2.0 * i as f64 + 1.0) / n as f64;
            let r = (1.0 - z * z).sqrt();
            let t = golden * i as f64;
            [r * t.cos(), r * t.sin(), z]
        })
        .collect()
}
