//! a5check <ID> <quick|thorough>     run a check, write evidence, exit 0/1/2
//! a5check <ID> --replay <file>      re-run one recorded case without the explorer
use std::time::Instant;

fn main() {
    let args: Vec<String> = std::env::args().collect();
    if args.len() < 3 {
        eprintln!("usage: a5check <ID> <quick|thorough> | a5check <ID> --replay <file>");
        std::process::exit(2);
    }
    let verif_dir = std::env::var("VERIF_DIR").unwrap_or_else(|_| "/verif".to_string());
    let prop = args[1].as_str();
    a5verif::subj::silence_panics();
    if prop == "GOLDEN" && args[2] == "gen" {
        match a5verif::checks::golden::generate(&args[3]) {
            Ok(()) => std::process::exit(0),
            Err(e) => {
                eprintln!("golden generation failed: {}", e);
                std::process::exit(2);
            }
        }
    }
    if prop == "GOLDEN" && args[2] == "gen2" {
        match a5verif::checks::golden::generate2(&args[3]) {
            Ok(()) => std::process::exit(0),
            Err(e) => {
                eprintln!("golden generation failed: {}", e);
                std::process::exit(2);
            }
        }
    }
    if prop == "C13" && args[2] == "--sched-child" {
        a5verif::checks::purity::sched_child(&args[3], &args[4]);
        std::process::exit(0);
    }
    if prop == "C13" && args[2] == "--first-child" {
        a5verif::checks::purity::first_child(&args[3], &args[4]);
        std::process::exit(0);
    }
    if prop == "C13" && args[2] == "--race-child" {
        a5verif::checks::purity::race_child(&args[3]);
        std::process::exit(0);
    }
    if prop == "C14" && args[2] == "--probe-worker" {
        a5verif::checks::total::worker_main(&args[3], args[4].parse().unwrap(), args[5].parse().unwrap());
        std::process::exit(0);
    }
    if args[2] == "--replay" {
        let body = std::fs::read_to_string(&args[3]).expect("cannot read replay file");
        let v: serde_json::Value = serde_json::from_str(&body).expect("replay file is not JSON");
        match a5verif::checks::replay(prop, &v["case"], &verif_dir) {
            Some(vs) if vs.is_empty() => {
                println!("replay: property {} holds on this case", prop);
                std::process::exit(0);
            }
            Some(vs) => {
                for x in vs {
                    println!("VIOLATION property={} replay={}", prop, args[3]);
                    println!("  class={} {}", x.class, x.what);
                }
                std::process::exit(1);
            }
            None => {
                eprintln!("no replay support for {}", prop);
                std::process::exit(2);
            }
        }
    }
    let tier = args[2].as_str();
    if tier != "quick" && tier != "thorough" {
        eprintln!("tier must be quick or thorough");
        std::process::exit(2);
    }
    // a subject that allocates without bound must not take the machine down: fail fast instead
    if prop != "C14" {
        unsafe {
            let lim = libc::rlimit { rlim_cur: 40 << 30, rlim_max: 40 << 30 };
            libc::setrlimit(libc::RLIMIT_AS, &lim);
        }
    }
    let seed: i64 = std::env::var("VERIF_SEED").ok().and_then(|s| s.parse().ok()).unwrap_or(0);
    let start = Instant::now();
    let ran = std::panic::catch_unwind(std::panic::AssertUnwindSafe(|| a5verif::checks::run(prop, tier, &verif_dir)));
    let ran = match ran {
        Ok(r) => r,
        Err(e) => {
            // a panic outside `subj::guard` is a fault of the checker (typically: a subject output it did not
            // expect while building its alphabet). Never a verdict, never silent.
            let msg = e.downcast_ref::<&str>().map(|s| s.to_string()).or_else(|| e.downcast_ref::<String>().cloned()).unwrap_or_default();
            let at = a5verif::subj::LAST_PANIC.lock().map(|g| g.clone()).unwrap_or_default();
            println!("MACHINERY: the checker panicked at {}: {}", at, msg);
            std::process::exit(2);
        }
    };
    let rep = match ran {
        Some(r) => r,
        None => {
            eprintln!("unknown property {}", prop);
            std::process::exit(2);
        }
    };
    let code = a5verif::ev::finish(&verif_dir, prop, tier, seed, start, rep);
    std::process::exit(code);
}
