//! First-touch operations shared by the native checker (reference values) and the Miri harness
//! (`/verif/miri-harness`). Only a5's own API; no other dependency.
use a5::coordinate_systems::{LonLat, Radians, IJ};
use a5::core::hilbert::Orientation;

#[derive(Clone, Copy, Debug)]
pub enum ROp {
    AuthalicFwd(f64),
    AuthalicInv(f64),
    IjToS(f64, f64, usize, u8),
    SToAnchor(u64, usize, u8),
    Deser(u64),
    Ser(u8, usize, u64, i32),
    Nearest(f64, f64),
    Lookup(f64, f64, i32),
    Centre(u64),
    Children(u64),
}

fn orient(o: u8) -> Orientation {
    match o % 6 {
        0 => Orientation::UV,
        1 => Orientation::VU,
        2 => Orientation::UW,
        3 => Orientation::WU,
        4 => Orientation::VW,
        _ => Orientation::WV,
    }
}

pub fn alphabet() -> Vec<ROp> {
    vec![
        ROp::AuthalicFwd(0.7),
        ROp::AuthalicInv(-0.4),
        ROp::IjToS(20.3, 11.2, 6, 0),
        ROp::IjToS(11.2, 20.3, 6, 2),
        ROp::SToAnchor(1627, 6, 3),
        ROp::SToAnchor(0xd17e_f895_adb6, 24, 0),
        ROp::Deser(0x2a80000000000000),
        ROp::Ser(10, 0, 5, 3),
        ROp::Nearest(0.3, 1.1),
        ROp::Lookup(12.3, 45.6, 1),
        ROp::Lookup(100.0, 10.0, 3),
        ROp::Centre(0xcaad800000000000),
        ROp::Children(0x1498000000000000),
    ]
}

fn err_bits(e: &str) -> Vec<u64> {
    let mut h: u64 = 0xcbf29ce484222325;
    for b in e.bytes() {
        h ^= b as u64;
        h = h.wrapping_mul(0x100000001b3);
    }
    vec![u64::MAX, h]
}

pub fn run(op: ROp) -> Vec<u64> {
    let r: Result<Vec<u64>, String> = match op {
        ROp::AuthalicFwd(p) => Ok(vec![a5::projections::authalic::AuthalicProjection.forward(Radians::new_unchecked(p)).get().to_bits()]),
        ROp::AuthalicInv(p) => Ok(vec![a5::projections::authalic::AuthalicProjection.inverse(Radians::new_unchecked(p)).get().to_bits()]),
        ROp::IjToS(x, y, n, o) => Ok(vec![a5::core::hilbert::ij_to_s(IJ::new(x, y), n, orient(o))]),
        ROp::SToAnchor(s, n, o) => {
            let a = a5::core::hilbert::s_to_anchor(s, n, orient(o));
            Ok(vec![a.k as u64, a.offset.x().to_bits(), a.offset.y().to_bits(), a.flips[0] as u64, a.flips[1] as u64])
        }
        ROp::Deser(c) => a5::core::serialization::deserialize(c).map(|c| vec![c.origin_id as u64, c.segment as u64, c.s, c.resolution as u64]),
        ROp::Ser(f, seg, s, r) => a5::core::serialization::serialize(&a5::core::utils::A5Cell { origin_id: f, segment: seg, s, resolution: r }).map(|x| vec![x]),
        ROp::Nearest(t, p) => Ok(vec![a5::core::origin::find_nearest_origin(a5::coordinate_systems::Spherical::new(Radians::new_unchecked(t), Radians::new_unchecked(p))).id as u64]),
        ROp::Lookup(lon, lat, r) => a5::lonlat_to_cell(LonLat::new(lon, lat), r).map(|c| vec![c]),
        ROp::Centre(c) => a5::cell_to_lonlat(c).map(|l| vec![l.longitude().to_bits(), l.latitude().to_bits()]),
        ROp::Children(c) => a5::cell_to_children(c, None),
    };
    match r {
        Ok(v) => v,
        Err(e) => err_bits(&e),
    }
}
