//! Thin adapters around the real a5 crate. Every call of subject code goes through `guard` so
//! that a panic becomes an `Err("PANIC: ...")` value instead of tearing down the explorer.
use crate::refgeom::{P2, V3};
use a5::coordinate_systems::{Face, LonLat, Radians, Spherical};
use a5::core::utils::A5Cell;
use a5::projections::dodecahedron::DodecahedronProjection;
use std::panic::{catch_unwind, AssertUnwindSafe};

pub fn silence_panics() {
    if std::env::var("A5_SHOW_PANICS").is_ok() {
        return;
    }
    // silent, but remember where the last panic happened: if it was in the checker itself (outside
    // `guard`) the top level reports it as a machinery failure with its location
    std::panic::set_hook(Box::new(|info| {
        if let (Some(l), Ok(mut g)) = (info.location(), LAST_PANIC.lock()) {
            *g = format!("{}:{}", l.file(), l.line());
        }
    }));
}
pub static LAST_PANIC: std::sync::Mutex<String> = std::sync::Mutex::new(String::new());

pub fn guard<T>(f: impl FnOnce() -> Result<T, String>) -> Result<T, String> {
    match catch_unwind(AssertUnwindSafe(f)) {
        Ok(r) => r,
        Err(e) => {
            let msg = if let Some(s) = e.downcast_ref::<&str>() {
                s.to_string()
            } else if let Some(s) = e.downcast_ref::<String>() {
                s.clone()
            } else {
                "?".to_string()
            };
            Err(format!("PANIC: {}", msg))
        }
    }
}
pub fn guard_val<T>(f: impl FnOnce() -> T) -> Result<T, String> {
    guard(|| Ok(f()))
}

pub fn lookup(lon: f64, lat: f64, res: i32) -> Result<u64, String> {
    guard(|| a5::lonlat_to_cell(LonLat::new(lon, lat), res))
}
pub fn lookup_branch(lon: f64, lat: f64, res: i32) -> (Result<u64, String>, i32) {
    a5::verif::set_lookup_branch(-1);
    let r = lookup(lon, lat, res);
    (r, a5::verif::lookup_branch())
}
pub fn centre(cell: u64) -> Result<(f64, f64), String> {
    guard(|| a5::cell_to_lonlat(cell).map(|l| (l.longitude(), l.latitude())))
}
pub fn boundary(cell: u64, closed: bool, segments: Option<i32>) -> Result<Vec<(f64, f64)>, String> {
    guard(|| {
        a5::cell_to_boundary(cell, Some(a5::core::cell::CellToBoundaryOptions { closed_ring: closed, segments }))
            .map(|v| v.iter().map(|l| (l.longitude(), l.latitude())).collect())
    })
}
pub fn boundary_default(cell: u64) -> Result<Vec<(f64, f64)>, String> {
    guard(|| a5::cell_to_boundary(cell, None).map(|v| v.iter().map(|l| (l.longitude(), l.latitude())).collect()))
}
pub fn children(cell: u64, r: Option<i32>) -> Result<Vec<u64>, String> {
    guard(|| a5::cell_to_children(cell, r))
}
pub fn parent(cell: u64, r: Option<i32>) -> Result<u64, String> {
    guard(|| a5::cell_to_parent(cell, r))
}
pub fn resolution(cell: u64) -> Result<i32, String> {
    guard_val(|| a5::get_resolution(cell))
}
pub fn compact(cells: &[u64]) -> Result<Vec<u64>, String> {
    guard(|| a5::compact(cells))
}
pub fn uncompact(cells: &[u64], r: i32) -> Result<Vec<u64>, String> {
    guard(|| a5::uncompact(cells, r))
}
pub fn deserialize(cell: u64) -> Result<A5Cell, String> {
    guard(|| a5::core::serialization::deserialize(cell))
}
pub fn serialize(c: &A5Cell) -> Result<u64, String> {
    guard(|| a5::core::serialization::serialize(c))
}

/// planar polygon of a cell in its face plane (as reported by get_pentagon)
pub fn pentagon(cell: u64) -> Result<(u8, Vec<P2>), String> {
    guard(|| {
        let c = a5::core::serialization::deserialize(cell)?;
        let p = a5::core::cell::get_pentagon(&c)?;
        Ok((c.origin_id, p.get_vertices_vec().iter().map(|f| [f.x(), f.y()]).collect()))
    })
}

pub fn sph(v: V3) -> Spherical {
    let (t, p) = crate::refgeom::to_theta_phi(v);
    Spherical::new(Radians::new_unchecked(t), Radians::new_unchecked(p))
}
pub fn sph_to_vec(s: Spherical) -> V3 {
    crate::refgeom::from_theta_phi(s.theta().get(), s.phi().get())
}

/// forward projection of a unit vector relative to a face, through the calling thread's instance
pub fn forward(v: V3, face: u8) -> Result<P2, String> {
    guard(|| {
        let d = DodecahedronProjection::get_thread_local();
        d.forward(sph(v), face).map(|f| [f.x(), f.y()])
    })
}
pub fn inverse(p: P2, face: u8) -> Result<V3, String> {
    guard(|| {
        let d = DodecahedronProjection::get_thread_local();
        d.inverse(Face::new(p[0], p[1]), face).map(sph_to_vec)
    })
}
/// the subject's lon/lat -> sphere conversion (used where the API input is lon/lat)
pub fn from_lonlat(lon: f64, lat: f64) -> Result<V3, String> {
    guard_val(|| sph_to_vec(a5::core::coordinate_transforms::from_lon_lat(LonLat::new(lon, lat))))
}
pub fn to_lonlat(v: V3) -> Result<(f64, f64), String> {
    guard_val(|| {
        let l = a5::core::coordinate_transforms::to_lon_lat(sph(v));
        (l.longitude(), l.latitude())
    })
}
pub fn hex(id: u64) -> String {
    format!("{:016x}", id)
}
